#!/usr/bin/env python3
"""Regenerates MANIFEST.json from the tables below (kept in one place so it stays valid)."""
import json

CLAIMS = {
 "C01": ("mapgraph", "TLC exhaustively checks that the implementation-shaped Map layer refines the ideal dictionary (RefinesDict over every operation instance in every reachable slot layout); every emitted (state, op) transition and seeded random walks through the graph are replayed against the real Map in debug and release and compared on return value and post-content; long recorded executions (capacities up to 300) are validated by TLC against the ideal dictionary; Apalache shows the one-step refinement (with retain's loop invariant and stored-key identity) from ANY well-formed state for every capacity up to 24 (spec/MapRef.tla)."),
 "C02": ("mapgraph", "Conservation invariant (every object stored / returned / destroyed / leaked exactly once) checked by TLC on every transition incl. all cursor episodes (items taken 0..len, dropped or forgotten); replay with an object ledger, placement check after every step, poisoned spare slots and final-drop accounting."),
 "C03": ("mapgraph", "Bounded invariant in every state; every full state x every insertion entry point replayed in debug AND release inside a canary cage: panic/None outcome, content unchanged, rejected objects destroyed once."),
 "C05": ("mapgraph", "UniqueKeys / Bounded / WellFormedPost invariants in TLC; the same predicate (pairwise unequal keys, count = len(), is_empty, len <= capacity, every yielded key looks up its own value) evaluated on the real container after every replayed step."),
 "C07": ("mapgraph", "Set operators defined as the code's projections of the Map operators and checked by TLC against the ideal set (RefinesDict, Mode=set); all transitions replayed on the real Set; recorded Set executions (extend, algebra, capacities up to 300) validated by TLC; the Apalache one-step refinement of spec/MapRef.tla covers the slot-level steps Set is built from."),
 "C09": ("mapgraph", "Cursor episodes (kind x items taken x write) checked against the order-free ideal (DEpisode: each entry once, exact lengths) and replayed: exact len/size_hint before every poll, None after the end, second traversal, clone continuation, writes visible."),
 "C10": ("mapgraph", "Consuming cursor / drain episodes (kind x items taken x drop|forget) checked in TLC (exact contents, lengths, drain always empties) and replayed with ownership accounting."),
 "C11": ("mapgraph", "Every entry method chain on every state x key checked equal to the direct dictionary operation in TLC (DEntry) and replayed: variant, closure call counts, returned reference, untouched other entries."),
 "C12": ("mapgraph", "Object-identity tags carried through every operator: TLC checks which key object is stored / returned / destroyed; the replay binds tags to real object serials and reports identity-only mismatches."),
 "C13": ("mapgraph", "DisjointAgrees invariant on the transcribed one-pass stack algorithm plus RefinesDict against positionwise get_mut for every key tuple (length 0..3 quick, 0..4 thorough); replay checks results, pairwise non-aliasing addresses, writes, panic iff repeated present key."),
 "C16": ("mapgraph", "FromIterator / From<[_;N]> / Extend modelled as the code's loop of inserts and checked by TLC against the fold of ideal inserts for all class sequences of length 0..N+2; replay with a recording source iterator that claims nothing / the truth / 'at most zero' through size_hint; recorded executions rebuild emptied containers by collect / From<[_;N]> / extend from up to 26 items (validated by TLC against the fold of ideal inserts)."),
 "C18": ("mapgraph", "UncheckedAgrees (insert_i == insert_ii slot for slot inside the contract) and DisjointAgrees invariants; all contract-satisfying instances replayed against the real unsafe methods."),
 "C19": ("mapgraph", "The model supplies the entry sequence to be rendered (containers) and the not-yet-yielded entries (every cursor kind at every prefix); replay compares the real Debug/Display output with std's rendering of the observed sequence and the listed entries with the model."),
 "C06": ("mapgraph+pairgraph", "Frame condition of the model (no operation touches a heap) bound to the code by a counting global allocator armed around every container call of every replayed transition (single-container and pair graphs), address checks on every returned reference, a build probe reading the crates the no_std library links against, element shapes incl. containers whose value is 80-130 KiB, and the capacity-300 trace (requests of 200 keys)."),
 "C08": ("pairgraph", "AlgebraIsMath invariant on the transcribed lazy adaptors (exact mathematical result, no repeats, left-operand objects, size_hint brackets at every prefix, predicates) over every pair of slot layouts; replay of every (pair, op, prefix) with next / clone / Debug / fold cross-checked and operands re-observed unchanged; the callback-granular model predicts the predicates' answers, the number of items each adaptor yields and the size of a - b; recorded Set executions run the algebra against a second set at capacities up to 300."),
 "C14": ("pairgraph", "EqIsExtensional invariant (eq.rs transcription == extensional equality, reflexive, symmetric) over all pairs of layouts and several capacity pairs; replay of a == b, b == a, a == a, b == b, a != b; the callback-granular model predicts the result of Map/Set ==, != against a second operand (values differing, panics in comparisons); recorded executions compare the container with its clone and with another container of capacity 310 that differs in at most one value / key / entry (Dict!DEqOther), up to N = 300; == on every element shape."),
 "C15": ("mapgraph", "Clone modelled with clone tags (one clone per key and value object), followed by an operation on either copy and the drop of either copy; TLC checks independence and conservation, the replay checks clone counts per source object, equality, the untouched copy and the ledger."),
 "C04": ("micro+mapgraph", "MapMicro.tla models slot memory at callback granularity (every slot uninit/live/moved/dropped, len, locals, the half-built clone / collection); TLC explores every operation from every state with a panic injected at every callback (and the unwinding that follows) and checks Safe / IdleWellFormed. Every behaviour TLC prints is replayed into the real crate with the panic injected at that callback: the safety predicate (no double destruction, no use of dead/uninitialised data, survivors well-formed, usable, droppable) gates; conformance of the code's callback sequence, outcome and survivors to the model is reported as drift (0 on this tree). A second sweep injects at every callback the CODE makes for every transition of the macro graph."),
 "C17": ("micro+mapgraph", "MapMicro.tla with Adv = TRUE: every key comparison may return either truth value; TLC explores the complete decision tree of every operation (incl. the index stack / split_at_mut logic of get_disjoint_mut with its bounds-check panic edges) and checks Safe (slot accesses inside the live prefix, distinct live slots handed out as &mut, len <= Cap, nothing destroyed twice). Every complete path is replayed into the real crate with a scripted Eq; safety predicate gates, path conformance (comparisons asked, outcome, survivors) is drift. A second sweep enumerates the real code's own decision tree depth-first for every macro-graph transition."),
 "C20": ("mapgraph", "Ser/De modelled as announce len + emit in slot order / fold of inserts; replay round-trips through serde_json and bincode (legacy, fixed length prefix = announced length) into targets of capacity len, N and N+1, and decodes hand-made streams with repeated keys / one key too many (conformance to the fold of inserts is reported as drift)."),
}
NA = {
}
PENDING = {
}
_B = "TLA+ specification model-checked with TLC; TLC-generated transitions replayed into the real crate (direction A) and recorded executions of the real crate validated by TLC against the specification (trace validation, direction B)"
TECH = {p: _B for p in ("C01", "C02", "C03", "C05", "C07", "C09", "C10", "C11", "C12", "C13", "C18")}
for _p in ("C01", "C07"):
    TECH[_p] = _B + "; plus a symbolic one-step refinement check of the slot-level steps with Apalache (spec/MapRef.tla) and a TLAPS proof, for unbounded capacity, that the slot array with swap-remove refines the ideal key-value map and that retain keeps exactly the accepted pairs (spec/MapProofKV.tla, spec/MapProofRetain.tla)"
for _p in ("C03", "C05"):
    TECH[_p] = _B + "; plus the representation invariant shown inductive with Apalache (capacities up to 32) and proved with TLAPS for unbounded capacity together with the refinement of the ideal key set by every slot-level step (spec/MapInd.tla, spec/MapProof.tla)"
TECH["C12"] = _B + "; plus a TLAPS proof of stored-key identity for unbounded capacity (spec/MapProofId.tla)"
for _p in ("C13", "C18"):
    TECH[_p] = _B + "; plus a symbolic check of the disjoint-borrow stack algorithm with Apalache (spec/MapDisj.tla) and its TLAPS proof for any sizes (spec/MapProofDisj.tla: no overflow, no aliasing, agreement with get_mut)"
for _p in ("C06", "C08", "C14", "C16"):
    TECH[_p] = _B
for _p in ("C09", "C10"):
    TECH[_p] = _B + "; plus a TLAPS proof that a scan of the slot sequence yields every entry exactly once with exact remaining lengths, for any size (spec/MapProofAlg.tla: FullScan, FullScanLen)"
TECH["C15"] = "TLA+ specification model-checked with TLC; TLC-generated transitions replayed into the real crate (conformance, direction A); plus a TLAPS proof of the clone loop for any size (spec/MapProofClone.tla)"
TECH["C16"] = _B + "; plus a TLAPS proof, for any number of items, that the loop of inserts keeps the last value and the first key object per key and that repeats consume no capacity (spec/MapProofBulk.tla)"
TECH["C14"] = _B + "; plus a TLAPS proof, for operands of any size and slot order, that == as written in eq.rs holds exactly when both hold the same pairs (spec/MapProofEq.tla)"
TECH["C08"] = _B + "; plus a TLAPS proof, for operands of any size, that the filtered-slot-iterator loop behind difference / intersection / union / symmetric_difference yields exactly the mathematical result without repeats and that the predicates tell the truth (spec/MapProofAlg.tla, spec/MapProofEq.tla)"
TECH["C04"] = "callback-granular TLA+ model (MapMicro.tla) model-checked with TLC with a panic injected at every callback; every model behaviour replayed into the real crate (conformance), plus an injection sweep over the code's own callbacks; plus a TLAPS proof for any capacity that the live prefix is well-formed after every step at which user code can run (spec/MapProofPanic.tla)"
TECH["C17"] = "callback-granular TLA+ model (MapMicro.tla, adversarial Eq) model-checked with TLC over every outcome of every key comparison; every model path replayed into the real crate with a scripted Eq (conformance), plus enumeration of the code's own decision tree; debug, release and AddressSanitizer builds; plus a TLAPS proof for any capacity that under arbitrary scan outcomes every slot index used stays inside the live prefix / capacity (spec/MapProofAdv.tla)"
NOTE = "exhaustive within the TLC constants recorded in the evidence (capacities 0..2 quick plus one capacity-3 / capacity-4 slice of the position-dependent families, 3 and 4 in full thorough; 3-5 key classes; 2 distinguishable key objects per class; 2 value contents); trace validation samples (does not exhaust) capacities up to 300 and, through a window of watched keys, one container of 65 600 entries; element types are the harness' instrumented plain-old-data Key/Val plus a dozen other element shapes (zero-sized with and without destructor, Copy, heap-owning, mixed drop glue, large, wide key, Clone without Drop, distinguishable equal keys, PathBuf probed by &Path, containers of 80-130 KiB) for the equality-visible part; TLC, rustc and std trusted; the harness holds no model logic, all expected values come from TLC's emitted transitions"

def main():
    checks = []
    for pid in sorted(CLAIMS):
        eng, text = CLAIMS[pid]
        checks.append({
            "property_id": pid,
            "quick_cmd": "python3 check.py run %s --tier quick" % pid,
            "thorough_cmd": "python3 check.py run %s --tier thorough" % pid,
            "evidence_file": "/verif/evidence/%s.json" % pid,
            "replay_cmd_template": "python3 check.py replay {path}",
            "engine": eng,
            "level_claimed": {"category": "model_checking", "text": text, "design_ref": "DESIGN.md section 7 (%s)" % pid},
            "level_note": NOTE,
            "technique": TECH.get(pid, "TLA+ specification model-checked with TLC; TLC-generated transitions replayed into the real crate (conformance, direction A)"),
        })
    m = {
        "version": 1,
        "setup_cmd": "python3 check.py setup",
        "hooks": {
            "guard": "micromap_verif",
            "enable": "RUSTFLAGS --cfg micromap_verif, set in /verif/harness/.cargo/config.toml (no hook is currently needed: the public API exposes the whole abstract state)",
            "baseline_off_cmd": "cd /repo && (cargo nextest run --workspace --no-fail-fast --offline || cargo test --workspace --no-fail-fast --offline)",
            "source_commits": [],
            "add_only": True,
        },
        "engines": [
            {"name": "pairgraph", "path": "spec/PairSpec.tla + harness/src/pair.rs", "serves_properties": ["C06", "C08", "C14"],
             "kind_free_text": "TLC state graph of two containers with the read-only binary operations, replayed into the real crate"},
            {"name": "symbolic", "path": "spec/MapRef.tla, spec/MapInd.tla, spec/MapDisj.tla (Apalache); spec/MapProof.tla, spec/MapProofKV.tla, spec/MapProofRetain.tla, spec/MapProofId.tla, spec/MapProofAlg.tla, spec/MapProofEq.tla, spec/MapProofDisj.tla, spec/MapProofBulk.tla, spec/MapProofAdv.tla, spec/MapProofPanic.tla, spec/MapProofClone.tla (TLAPS)", "serves_properties": ["C01", "C03", "C04", "C05", "C07", "C08", "C09", "C10", "C12", "C13", "C14", "C15", "C16", "C17", "C18"],
             "kind_free_text": "design-level strengthenings beyond TLC's capacities: one-step refinement of the dictionary from any well-formed state (capacities <= 24), inductive representation invariant (<= 32) and, by TLAPS for unbounded capacity, the invariant together with the refinement of the ideal key set / key-value map by every slot-level step, the disjoint-borrow stack algorithm for arbitrary states; run inside the named checks"},
            {"name": "micro", "path": "spec/MapMicro.tla + harness/src/micro.rs + harness/src/sweep.rs", "serves_properties": ["C04", "C08", "C14", "C17"],
             "kind_free_text": "callback-granular TLA+ model of slot memory (panic at every callback / every outcome of every key comparison), every behaviour replayed into the real crate"},
            {"name": "tracecheck", "path": "spec/Trace.tla (over spec/Dict.tla) + harness/src/trace.rs",
             "serves_properties": ["C01", "C02", "C04", "C05", "C06", "C07", "C08", "C09", "C10", "C11", "C12", "C13", "C14", "C16", "C18"],
             "kind_free_text": "direction B: long random executions of the real crate (capacities up to 300, and a windowed history at capacity 65 600) recorded per call and validated by TLC against the ideal dictionary"},
            {"name": "mapgraph", "path": "spec/MapSpec.tla + harness/src/replay.rs", "serves_properties": sorted(CLAIMS),
             "kind_free_text": "TLC state graph of one container (Map.tla/MapOps.tla refining Dict.tla) emitted as labelled transitions and replayed into the real crate"},
        ],
        "checks": checks,
        "notes": "See DESIGN.md. Exit codes: 0 held, 1 VIOLATION, 2 tool error.",
        "not_applicable": [{"property_id": k, "reason": v} for k, v in sorted({**NA, **PENDING}.items())],
    }
    json.dump(m, open("MANIFEST.json", "w"), indent=1)

main()
