#!/usr/bin/env python3
"""Driver of the micromap TLA+ model-based verification (see DESIGN.md).

  check.py setup                         build the harness, parse all specifications
  check.py run <Cnn> [--tier quick|thorough]
  check.py replay <path>                 re-run one recorded violation

Exit codes: 0 = the property held on everything explored (known findings are printed
as KNOWN-FINDING lines), 1 = VIOLATION (line `VIOLATION property=<id> replay=<path>`),
2 = tool error / timeout / vacuous run (never prints VIOLATION).
"""
import hashlib
import json
import os
import re
import shutil
import subprocess
import sys
import time

ROOT = os.path.dirname(os.path.abspath(__file__))
SPEC = os.path.join(ROOT, "spec")
# (the VERIF_DEV_* overrides exist for development against scratch copies; registered commands never set them)
WORK = os.environ.get("VERIF_DEV_WORK", os.path.join(ROOT, "work"))
HARNESS = os.environ.get("VERIF_DEV_HARNESS", os.path.join(ROOT, "harness"))
EVID = os.environ.get("VERIF_DEV_EVID", os.path.join(ROOT, "evidence"))
REPLAYS = os.path.join(ROOT, "replays")
REPO = os.environ.get("VERIF_DEV_REPO", "/repo")
TLC_WORKERS = int(os.environ.get("VERIF_TLC_WORKERS", "4"))
JOBS_PAR = int(os.environ.get("VERIF_JOBS", "6"))


class ToolError(Exception):
    pass


def sh(cmd, cwd=None, timeout=None, env=None, check=True):
    e = dict(os.environ)
    e.setdefault("CARGO_NET_OFFLINE", "true")
    if env:
        e.update(env)
    p = subprocess.run(cmd, cwd=cwd, timeout=timeout, env=e, stdout=subprocess.PIPE, stderr=subprocess.STDOUT, text=True)
    if check and p.returncode != 0:
        raise ToolError("command failed (%d): %s\n%s" % (p.returncode, " ".join(cmd), p.stdout[-4000:]))
    return p


# ----------------------------------------------------------------- harness --
ASAN_FLAGS = "-Zsanitizer=address --cfg micromap_verif --check-cfg cfg(micromap_verif)"


def build_harness(profile):
    """(Re)build the harness against /repo's current working tree. Returns the command prefix
    that runs it. Profiles: debug, release, asan (release + AddressSanitizer, nightly), miri."""
    lock = os.path.join(HARNESS, "Cargo.lock")
    if not os.path.exists(lock):
        shutil.copy(os.path.join(REPO, "Cargo.lock"), lock)
    # one target directory per profile, so that the builds can run side by side
    tdir = os.path.join(HARNESS, "target", "p-" + profile)
    env = None
    if profile == "miri":
        # built and run by `cargo miri run`; build once here so that later runs only interpret
        cmd = ["cargo", "+nightly", "miri", "run", "--offline", "--quiet", "--target-dir", tdir, "--", "noop"]
        sh(cmd, cwd=HARNESS, timeout=2400, check=False, env={"MIRIFLAGS": "-Zmiri-disable-isolation"})
        return ["cargo", "+nightly", "miri", "run", "--offline", "--quiet", "--target-dir", tdir, "--"]
    if profile == "asan":
        cmd = ["cargo", "+nightly", "build", "--offline", "--quiet", "--release", "--target", "x86_64-unknown-linux-gnu", "--target-dir", tdir]
        env = {"RUSTFLAGS": ASAN_FLAGS}
        binp = os.path.join(tdir, "x86_64-unknown-linux-gnu", "release", "verif-harness")
    else:
        cmd = ["cargo", "build", "--offline", "--quiet", "--target-dir", tdir]
        if profile in ("release", "stdfeat"):
            cmd.append("--release")
        if profile == "stdfeat":       # release build with micromap's `std` feature switched on
            cmd += ["--features", "mstd"]
        binp = os.path.join(tdir, "release" if profile in ("release", "stdfeat") else "debug", "verif-harness")
    p = sh(cmd, cwd=HARNESS, timeout=2400, check=False, env=env)
    if p.returncode != 0:
        raise ToolError("harness build failed (%s):\n%s" % (profile, p.stdout[-6000:]))
    return [binp]


def build_all(profiles):
    from concurrent.futures import ThreadPoolExecutor
    with ThreadPoolExecutor(max_workers=len(profiles)) as ex:
        return dict(zip(profiles, ex.map(build_harness, profiles)))


# --------------------------------------------------------------------- TLC --
def tla_set(xs):
    return "{" + ", ".join(json.dumps(x) if isinstance(x, str) else str(x) for x in xs) + "}"


def write_cfg(path, consts, invariants, spec="Spec"):
    lines = ["SPECIFICATION %s" % spec, "CONSTANTS"]
    for k, v in consts.items():
        if isinstance(v, (list, tuple, set)):
            v = tla_set(sorted(v))
        elif isinstance(v, bool):
            v = "TRUE" if v else "FALSE"
        elif isinstance(v, str):
            v = json.dumps(v)
        lines.append("  %s = %s" % (k, v))
    if invariants:
        lines.append("INVARIANTS " + " ".join(invariants))
    lines.append("CHECK_DEADLOCK FALSE")
    with open(path, "w") as f:
        f.write("\n".join(lines) + "\n")


TLC_STATS = re.compile(r"(\d+) states generated, (\d+) distinct states found")


def run_tlc(tag, module, consts, invariants, table_path=None, timeout=900, extra=None):
    """Run TLC on spec/<module>.tla in a private work dir. Returns stats dict.
    With table_path, the TR lines TLC prints are written there as ndjson."""
    d = os.path.join(WORK, "tlc-" + tag)
    shutil.rmtree(d, ignore_errors=True)
    os.makedirs(d)
    for f in os.listdir(SPEC):
        if f.endswith(".tla"):
            shutil.copy(os.path.join(SPEC, f), d)
    cfg = os.path.join(d, "MC.cfg")
    write_cfg(cfg, consts, invariants)
    out = os.path.join(d, "tlc.out")
    cmd = ["timeout", str(timeout), "tlc", "-workers", str(TLC_WORKERS), "-noGenerateSpecTE",
           "-metadir", os.path.join(d, "states"), "-config", "MC.cfg"] + (extra or []) + [module + ".tla"]
    t0 = time.time()
    with open(out, "w") as fo:
        p = subprocess.run(cmd, cwd=d, stdout=fo, stderr=subprocess.STDOUT, env=dict(os.environ, JAVA_TOOL_OPTIONS="-Xss64m"))
    wall = time.time() - t0
    n_tr = 0
    garbled = 0
    tail = []
    stats = None
    tf = open(table_path, "w") if table_path else None
    with open(out) as fi:
        for line in fi:
            if line.startswith('<<"TR", "'):
                if tf:
                    s = line.rstrip("\n")
                    s = s[len('<<"TR", "'):-len('">>')]
                    s = s.replace('\\"', '"').replace("\\\\", "\\")
                    try:
                        json.loads(s)
                    except ValueError:
                        # two workers' output interleaved on one line: a tool problem, never a verdict
                        garbled += 1
                        continue
                    tf.write(s + "\n")
                n_tr += 1
            else:
                tail.append(line)
                if len(tail) > 60:
                    tail.pop(0)
                m = TLC_STATS.search(line)
                if m:
                    stats = (int(m.group(1)), int(m.group(2)))
    if tf:
        tf.close()
    text = "".join(tail)
    shutil.rmtree(os.path.join(d, "states"), ignore_errors=True)
    if p.returncode == 124:
        raise ToolError("TLC timed out after %ss (%s)" % (timeout, tag))
    if garbled:
        raise ToolError("%d transition lines printed by TLC were garbled (%s)" % (garbled, tag))
    violated = "is violated" in text or "Error:" in text
    if violated or p.returncode != 0 or stats is None or "Model checking completed. No error has been found." not in text:
        return {"ok": False, "text": text, "wall": wall, "tag": tag, "out": out}
    return {"ok": True, "generated": stats[0], "distinct": stats[1], "emitted": n_tr, "wall": wall, "tag": tag, "out": out,
            "cmd": " ".join(cmd), "consts": {k: (sorted(v) if isinstance(v, (set, list, tuple)) else v) for k, v in consts.items()}}


# ------------------------------------------------------------------ engines --
PAIR_INVS = ["TypeOK", "UniqueKeys", "EqIsExtensional", "AlgebraIsMath"]
MICRO_INVS = ["Safe", "Bounded", "IdleWellFormed", "MicroRefinesMacro"]
ALL_INVS = ["TypeOK", "Bounded", "UniqueKeys", "RefinesDict", "Conservation", "UncheckedAgrees", "DisjointAgrees"]


def one_job(pid, tier, seed, job, bins, only=None):
    """TLC on one job, then the replay of its table in every build profile.
    Returns (tlc summary, [(profile, report or None, crash-failure or None)], table, jkey)."""
    tag = "%s-%s-%s" % (pid, tier, job["tag"])
    jkey = job_key(job)
    if job.get("spec") == "trace":
        return trace_job(pid, tier, seed, job, bins, tag, jkey)
    pair = job.get("spec") == "pair"
    micro = job.get("spec") == "micro"
    if micro:
        consts = {"Cap": 2, "Classes": [1, 2, 3], "Adv": False, "Budget": 1, "Mode": job.get("mode", "map"),
                  "Fams": job["family"], "MaxJ": 2, "MaxItems": 2, "Emit": True}
    elif pair:
        consts = {"CapA": 2, "CapB": 2, "Classes": [0, 1, 2], "VerA": 0, "VerB": 1, "Vals": [0, 1], "Mode": job.get("mode", "set"),
                  "Family": job["family"], "Emit": True}
    else:
        consts = {"Caps": [0, 1, 2], "Classes": [0, 1, 2], "Vers": [0, 1], "Vals": [0, 1], "Mode": job.get("mode", "map"),
                  "Family": job["family"], "Emit": True, "MaxKs": 3, "MaxExtra": 2}
    consts.update(job.get("consts", {}))
    if consts["Mode"] == "set" and not micro:
        consts["Vals"] = [0]
    table = os.path.join(WORK, "table-%s.ndjson" % tag)
    st = run_tlc(tag, "MapMicro" if micro else "PairSpec" if pair else "MapSpec", consts,
                 MICRO_INVS if micro else PAIR_INVS if pair else ALL_INVS, table_path=table, timeout=job.get("timeout", 1500))
    if not st["ok"]:
        raise ToolError("TLC reports an error on the specification itself (%s):\n%s" % (tag, st["text"][-3000:]))
    if st["emitted"] == 0:
        raise ToolError("vacuous run: TLC emitted no transition for %s" % tag)
    if only is not None:
        # replay of one recorded violation: keep the transitions of that (state, call) only
        keys = ("n", "s", "o", "na", "nb", "a", "b")
        want = {k: only[k] for k in keys if k in only}
        kept = [l for l in open(table) if all(json.loads(l).get(k) == v for k, v in want.items())]
        with open(table, "w") as f:
            f.writelines(kept)
        job = dict(job, walks=0)
    outs = []
    for prof, binp in bins.items():
        if prof not in job.get("profiles", ["debug", "release"]):
            continue
        rep_path = os.path.join(WORK, "report-%s-%s.json" % (tag, prof))
        prog = os.path.join(WORK, "progress-%s-%s.txt" % (tag, prof))
        ptable = table
        if prof == "miri":
            # the interpreter is ~1000x slower: a strided slice of the table
            lines = open(table).readlines()
            step = max(1, len(lines) // int(job.get("miri_edges", 250)))
            ptable = table + ".miri"
            with open(ptable, "w") as f:
                f.writelines(lines[(seed % step)::step])
        cmd = binp + ["replay", "--table", ptable, "--mode", consts["Mode"], "--edges", "--out", rep_path, "--progress", prog,
               "--walks", str(0 if prof == "miri" else job.get("walks", 20)), "--steps", str(job.get("steps", 500)), "--seed", str(seed)]
        if pair and job.get("sweep"):
            cmd = binp + ["pairsweep", "--table", ptable, "--adv", "1" if job["sweep"] == "adversarial" else "0", "--out", rep_path, "--progress", prog,
                          "--max-leaves", str(job.get("max_leaves", 128))]
        elif pair:
            cmd = binp + ["pairs", "--table", ptable, "--mode", consts["Mode"], "--out", rep_path, "--progress", prog]
        if pair:
            pass
        elif micro:
            cmd = binp + ["micro", "--table", ptable, "--mode", consts["Mode"], "--adv", "1" if consts["Adv"] else "0", "--out", rep_path, "--progress", prog]
        elif job.get("sweep"):
            cmd = binp + [job["sweep"], "--table", ptable, "--mode", consts["Mode"], "--out", rep_path, "--progress", prog,
                   "--stride", str(job.get("stride", 1)), "--offset", str(seed % job.get("stride", 1)), "--max-leaves", str(job.get("max_leaves", 256))]
        if os.path.exists(rep_path):
            os.remove(rep_path)
        p = subprocess.run(cmd, stdout=subprocess.PIPE, stderr=subprocess.STDOUT, text=True, timeout=6000,
                           cwd=HARNESS, env=dict(os.environ, MIRIFLAGS="-Zmiri-disable-isolation", ASAN_OPTIONS="detect_leaks=0"))
        if p.returncode != 0 or not os.path.exists(rep_path):
            # the code under test crashed the process: that is data
            case = open(prog).read().strip() if os.path.exists(prog) else "?"
            line = None
            try:
                with open(table) as tf:
                    for i, l in enumerate(tf):
                        if i == int(case):
                            line = json.loads(l)
                            break
            except Exception:
                pass
            outs.append((prof, None, {"how": "the harness process died (signal/abort) while executing this transition (%s build)" % prof,
                                      "msg": "exit status %s; output: %s" % (p.returncode, p.stdout[-1500:]), "transition": line, "table": table,
                                      "line": case, "jobkey": jkey, "job": json.loads(jkey)}))
        else:
            rep = json.load(open(rep_path))
            if job.get("shapes") and not (pair or micro or job.get("sweep")):
                # the same transitions with other element shapes (ZST, small Copy, heap-owning, large, Clone-without-Drop)
                sp = os.path.join(WORK, "report-%s-%s-shapes.json" % (tag, prof))
                if os.path.exists(sp):
                    os.remove(sp)
                p2 = subprocess.run(binp + ["shapes", "--table", ptable, "--mode", consts["Mode"], "--out", sp, "--progress", prog],
                                    stdout=subprocess.PIPE, stderr=subprocess.STDOUT, text=True, timeout=3000, cwd=HARNESS,
                                    env=dict(os.environ, MIRIFLAGS="-Zmiri-disable-isolation", ASAN_OPTIONS="detect_leaks=0"))
                if p2.returncode != 0 or not os.path.exists(sp):
                    case = open(prog).read().strip() if os.path.exists(prog) else "?"
                    outs.append((prof, None, {"how": "the harness process died (signal/abort) while replaying with another element shape (%s build)" % prof,
                                              "msg": "exit status %s; output: %s" % (p2.returncode, p2.stdout[-1500:]), "transition": None, "table": table,
                                              "line": case, "jobkey": jkey, "job": json.loads(jkey)}))
                    continue
                r2 = json.load(open(sp))
                rep["edges"] += r2["edges"]
                rep["shapes"] = r2.get("shapes")
                for k, v in r2["fail_examples"].items():
                    rep["fail_examples"].setdefault(k, []).extend(v)
                for k, v in r2["fail_counts"].items():
                    rep["fail_counts"][k] = rep["fail_counts"].get(k, 0) + v
            outs.append((prof, rep, None))
    return st, outs, table, jkey, tag


def trace_props(op, why, viol=None, ev=None):
    """properties a rejected event contradicts: `why` names the group of conjuncts of Trace.tla that failed"""
    if why == "PANIC":
        return {"C04"}
    if why in ("WF", "CHAIN"):
        # the state is observed with iter(): when it yields another number of entries than len() reports, "len() equals
        # what iteration yields" (C05) and "iter yields every stored entry exactly once" (C09) are both contradicted
        if ev and isinstance(ev.get("p"), list) and ev.get("len") != len(ev["p"]) + ev.get("hid2", 0):
            return {"C05", "C03", "C09"}
        return {"C05", "C03"}
    if why == "VIOL":
        # what the instruments saw during the call: the harness' own notes name their properties
        # ("[C06] 1 allocator call ..."); ledger findings (double destruction, dead data) are C02
        props = set()
        for v in viol or []:
            m = re.match(r"\[([C0-9,]+)\]", v)
            props |= set(m.group(1).split(",")) if m else {"C02"}
        return props or {"C02"}
    n = op.get("name", "")
    if n == "cursor_all":
        return {"C09"}
    if n == "final_drop":
        return {"C02"}
    if n in ("drain_all", "into_iter_all"):
        return {"C10", "C02"}
    if n in ("insert", "insert_key_value", "checked_insert"):
        return {"C01", "C12", "C03"}
    if n in ("get", "get_mut", "contains_key", "index", "index_mut", "remove", "get_key_value", "remove_entry"):
        return {"C01"}
    if n in ("retain", "clear", "drop"):
        return {"C01", "C02"}
    if n == "drain":
        return {"C01", "C10", "C02"}
    if n == "s_drain":
        return {"C07", "C10", "C02"}
    if n == "cursor":
        return {"C10", "C02"} if op.get("kind", "").startswith("into_") else {"C09"}
    if n == "entry":
        return {"C11", "C12", "C03"}
    if n == "disjoint":
        return {"C13", "C18"} if op.get("unchecked") else {"C13"}
    if n in ("eq_other", "s_eq_other"):
        return {"C14"}
    if n in ("eq_clone", "s_eq_clone"):
        return {"C14", "C15"}
    if n == "s_algebra":
        return {"C08"}
    if n == "s_iter":
        return {"C09"}
    if n == "s_into_iter":
        return {"C10", "C02"}
    if n in ("from_iter", "from_array", "s_from_iter", "s_from_array"):
        return {"C16", "C12", "C03"}
    if n == "s_extend":
        return {"C07", "C16", "C03"}
    if n in ("s_insert", "s_replace"):
        return {"C07", "C12", "C03"}
    if n in ("s_get", "s_take"):
        return {"C07", "C12"}
    if n.startswith("s_"):
        return {"C07"}
    return {"C01"}


def trace_job(pid, tier, seed, job, bins, tag, jkey):
    """Direction B: record long random histories of the real crate, validate them with TLC
    against spec/Trace.tla (the ideal dictionary of Dict.tla)."""
    outs = []
    bins = {k: v for k, v in bins.items() if k in job.get("profiles", ["debug", "release"])}
    agg = {"tag": tag, "generated": 0, "distinct": 0, "emitted": 0, "wall": 0.0, "consts": {k: job.get(k) for k in ("mode", "runs", "steps", "caps", "classes", "inject")},
           "cmd": "harness trace ... ; TRACE=<file> tlc -workers 1 -config Trace.cfg Trace.tla (POSTCONDITION Accepted)", "ok": True}
    for prof, binp in bins.items():
        d = os.path.join(WORK, "trace-%s-%s" % (tag, prof))
        shutil.rmtree(d, ignore_errors=True)
        os.makedirs(d)
        tr = os.path.join(d, "trace.ndjson")
        info = os.path.join(d, "info.json")
        p = subprocess.run(binp + ["trace", "--mode", job["mode"], "--seed", str(seed), "--runs", str(job["runs"]), "--steps", str(job["steps"]),
                            "--caps", ",".join(map(str, job["caps"])), "--classes", str(job["classes"]), "--inject", str(job.get("inject", 0)),
                            "--trace", tr, "--out", info] + (["--window", "1"] if job.get("window") else []),
                           stdout=subprocess.PIPE, stderr=subprocess.STDOUT, text=True, timeout=3000)
        crashed = p.returncode != 0 or not os.path.exists(info)
        for f in os.listdir(SPEC):
            if f.endswith(".tla"):
                shutil.copy(os.path.join(SPEC, f), d)
        with open(os.path.join(d, "Trace.cfg"), "w") as f:
            f.write("SPECIFICATION Spec\nPOSTCONDITION Accepted\nCHECK_DEADLOCK FALSE\n")
        nev = sum(1 for _ in open(tr)) if os.path.exists(tr) else 0
        t0 = time.time()
        q = subprocess.run(["timeout", "1500", "tlc", "-workers", "1", "-noGenerateSpecTE", "-metadir", os.path.join(d, "states"), "-config", "Trace.cfg", "Trace.tla"],
                           cwd=d, stdout=subprocess.PIPE, stderr=subprocess.STDOUT, text=True,
                           env=dict(os.environ, TRACE=tr, JAVA_TOOL_OPTIONS="-Xss1g -Dtlc2.tool.queue.IStateQueue=StateDeque"))
        agg["wall"] += time.time() - t0
        shutil.rmtree(os.path.join(d, "states"), ignore_errors=True)
        if q.returncode == 124:
            raise ToolError("TLC timed out validating a trace (%s)" % tag)
        if "TLC threw an unexpected exception" in q.stdout or "Parsing or semantic analysis failed" in q.stdout:
            # not a verdict about the code: the trace specification could not evaluate the recorded events
            raise ToolError("TLC could not evaluate the trace specification (%s): %s" % (tag, q.stdout[-1800:]))
        m = re.search(r"depth of the complete state graph search is (\d+)", q.stdout)
        depth = int(m.group(1)) if m else 0
        accepted = "No error has been found" in q.stdout and depth - 1 == nev and not crashed
        rep = {"edges": 0, "walks": job["runs"], "walk_steps": max(depth - 1, 0), "drift": 0, "poison_active": False, "distinct_states": 0,
               "op_counts": {}, "samples": [], "drift_examples": [], "fail_examples": {}, "fail_counts": {}}
        agg["generated"] += depth
        agg["distinct"] += depth
        agg["emitted"] += nev
        if not accepted:
            if depth == 0 and not m:
                raise ToolError("TLC failed on the trace specification (%s): %s" % (tag, q.stdout[-2000:]))
            ev = None
            try:
                with open(tr) as f:
                    for i, l in enumerate(f):
                        if i == depth - 1:
                            ev = json.loads(l)
                            break
            except Exception:
                pass
            mw = re.search(r'"REJECTED-AT",\s*\d+,\s*"(\w+)"', q.stdout)
            props = trace_props((ev or {}).get("o", {}), mw.group(1) if mw else "ALLOW", (ev or {}).get("viol"), ev) if ev else {"CRASH"}
            why = "the harness died while recording" if crashed and ev is None else "TLC rejects event %d of the recorded execution: it is not a step the specification (Dict.tla) allows" % depth
            errs = [l for l in q.stdout.splitlines() if l.startswith("Error:") or "REJECTED" in l]
            for pr in props:
                rep["fail_examples"].setdefault(pr, []).append({"line": depth, "how": "trace validation (direction B), %s build" % prof, "trace": True,
                                                                 "msg": "%s; viol=%s; %s" % (why, (ev or {}).get("viol"), " | ".join(errs)[:400]), "transition": ev})
                rep["fail_counts"][pr] = 1
        else:
            with open(tr) as f:
                for i, l in enumerate(f):
                    if i in (7, 401):
                        rep["samples"].append(json.loads(l))
        outs.append((prof, rep, None))
    return agg, outs, "", jkey, tag


def mapgraph(pid, tier, seed, jobs, profiles):
    """jobs: list of dicts {tag, mode, family, consts-overrides, walks, steps}.
    Runs TLC per job (model checking + emission), then replays the emitted graph into the
    real crate in every requested build profile; jobs run concurrently. Returns (summary, failures)."""
    from concurrent.futures import ThreadPoolExecutor
    profiles = sorted(set(profiles) | {p for j in jobs for p in j.get("profiles", [])})
    bins = build_all(profiles)
    summary = {"tlc": [], "replays": [], "states": 0, "transitions": 0, "emitted": 0, "replayed_edges": 0,
               "walk_steps": 0, "drift": 0, "samples": [], "op_counts": {}}
    failures = []  # (props-set, example)
    with ThreadPoolExecutor(max_workers=JOBS_PAR) as ex:
        results = list(ex.map(lambda j: one_job(pid, tier, seed, j, bins), jobs))
    for st, outs, table, jkey, tag in results:
        summary["tlc"].append({k: st[k] for k in ("tag", "generated", "distinct", "emitted", "wall", "consts", "cmd")})
        summary["states"] += st["distinct"]
        summary["transitions"] += st["generated"]
        summary["emitted"] += st["emitted"]
        for prof, rep, crash in outs:
            if crash is not None:
                failures.append(({"CRASH"}, crash))
                continue
            summary["replays"].append({"tag": tag, "profile": prof, "edges": rep["edges"], "walks": rep["walks"], "walk_steps": rep["walk_steps"],
                                       "drift": rep["drift"], "poison_active": rep["poison_active"], "distinct_states": rep["distinct_states"]})
            if "sweep" in rep:
                sw = summary.setdefault("sweep", {"cases": 0, "runs": 0, "max_callbacks": 0, "truncated": 0, "callback_kinds": {}, "failing_sites": {}})
                for k in ("cases", "runs", "truncated"):
                    sw[k] += rep["sweep"][k]
                for k in ("injected_runs", "extra_positions", "drift_callbacks", "drift_outcome", "drift_survivors", "drift_asked"):
                    if k in rep["sweep"]:
                        sw["micro_" + k] = sw.get("micro_" + k, 0) + rep["sweep"][k]
                sw["max_callbacks"] = max(sw["max_callbacks"], rep["sweep"]["max_callbacks"])
                for k, v in rep["sweep"]["callback_kinds"].items():
                    sw["callback_kinds"][k] = sw["callback_kinds"].get(k, 0) + v
                for k, v in rep["sweep"]["failing_sites"].items():
                    sw["failing_sites"][k] = sw["failing_sites"].get(k, 0) + v
            if rep.get("shapes"):
                sh_ = summary.setdefault("element_shapes", {})
                for k, v in rep["shapes"].items():
                    sh_[k] = sh_.get(k, 0) + v
            summary["replayed_edges"] += rep["edges"]
            summary["walk_steps"] += rep["walk_steps"]
            summary["drift"] += rep["drift"]
            for k, v in rep["op_counts"].items():
                summary["op_counts"][k] = summary["op_counts"].get(k, 0) + v
            if len(summary["samples"]) < 4:
                summary["samples"].extend(rep["samples"][:2])
            if rep["drift_examples"]:
                summary.setdefault("drift_examples", []).extend(rep["drift_examples"][:1])
            for prop, exs in rep["fail_examples"].items():
                for ex_ in exs:
                    e2 = dict(ex_)
                    e2["profile"] = prof
                    e2["table"] = table
                    e2["count"] = rep["fail_counts"].get(prop, 0)
                    e2["jobkey"] = jkey
                    e2["job"] = json.loads(jkey)
                    failures.append(({prop}, e2))
    return summary, failures


def job_key(job):
    return json.dumps({k: v for k, v in job.items() if k not in ("walks", "steps", "timeout")}, sort_keys=True)


ALL_PIDS = ["C%02d" % i for i in range(1, 21)]


def run_matrix(tier, seed, only=None):
    """Development tool (mutant evaluation): run every distinct job once and report, per
    property, whether its check would raise a violation."""
    uniq = {}
    owners = {}
    for pid in ALL_PIDS:
        for j in jobs_for(pid, tier) or []:
            k = job_key(j)
            uniq.setdefault(k, j)
            owners.setdefault(k, set()).add(pid)
    jobs = list(uniq.values())
    for n, j in enumerate(jobs):
        j = dict(j)
        j["tag"] = "%s-%d" % (j["tag"], n)
        jobs[n] = j
    summary, failures = mapgraph("ALL", tier, seed, jobs, ["debug", "release"])
    info, fl = nostd_probe()
    verdict = {}
    FIELDS = ("family", "consts", "mode", "spec", "sweep", "shapes")

    def owned_by(pid, base):
        return any(pid in owners[k] for k in owners if all(json.loads(k).get(f) == base.get(f) for f in FIELDS))

    for pid in ALL_PIDS:
        gate = GATES.get(pid, {pid, "CRASH"}) | {"SPEC"}
        mine = []
        for props, ex in failures:
            jk = ex.get("jobkey")
            base = json.loads(jk) if jk else None
            if not base or not owned_by(pid, base):
                continue
            # (as in run_check: a failure that no check running this very job would report is never dropped)
            orphan = not any(owned_by(p, base) for p in props if p in ALL_PIDS)
            if ((props & gate and widened_ok(pid, props, ex)) if not ex.get("trace") else pid in props) or orphan:
                mine.append(ex)
        if pid == "C06":
            mine.extend(ex for props, ex in fl)
        verdict[pid] = mine
    return summary, verdict


# per property: which jobs decide it and which failure attributions gate it
def jobs_for(pid, tier):
    q = tier == "quick"
    big = {} if q else {"Caps": [3], "Classes": [0, 1, 2, 3]}
    W = dict(walks=30, steps=400) if q else dict(walks=200, steps=2000)

    def J(tag, family, mode="map", consts=None, **kw):
        c = dict(consts or {})
        d = dict(tag=tag, family=family, mode=mode, consts=c)
        d.update(W)
        d.update(kw)
        return d

    def both(tag, family, mode="map", consts=None, bigconsts=None, **kw):
        js = [J(tag + "-n012", family, mode, consts, **kw)]
        if not q:
            c = dict(consts or {})
            c.update(big)
            c.update(bigconsts or {})
            js.append(J(tag + "-n3", family, mode, c, **kw))
            if not (set(family) & {"disjoint", "bulk", "serde", "unchecked"}):
                # capacity 4 over 5 classes: every slot order of every content, one key version, one value content
                c4 = dict(consts or {})
                c4.update({"Caps": [4], "Classes": [0, 1, 2, 3, 4], "Vers": [0], "Vals": [0]})
                js.append(J(tag + "-n4", family, mode, c4, **kw))
        return js

    def pairs(tag, family, mode, caps):
        return [dict(tag="%s-%dx%d" % (tag, ca, cb), spec="pair", family=family, mode=mode,
                     consts={"CapA": ca, "CapB": cb, "Classes": ([0, 1, 2] if max(ca, cb) <= 3 and q else [0, 1, 2, 3])}) for ca, cb in caps]

    MFAM = ["core", "entry", "unchecked", "disjoint", "cursor", "bulk", "clone", "binary"]
    SFAM = ["core", "cursor", "bulk", "clone", "binary"]

    def micro(tag, mode, adv, cap, classes, fams, **c):
        consts = {"Cap": cap, "Classes": classes, "Adv": adv, "Budget": 0 if adv else 1}
        consts.update(c)
        return dict(tag=tag, spec="micro", mode=mode, family=fams, consts=consts, timeout=3600)

    if q:
        micro_inject = [micro("mi-map-n%d" % n, "map", False, n, [1, 2, 3], MFAM) for n in (1, 2)] + \
                       [micro("mi-set-n%d" % n, "set", False, n, [1, 2, 3], SFAM) for n in (1, 2)]
        micro_adv = [micro("ma-map-n%d" % n, "map", True, n, [1], MFAM, MaxJ=3) for n in (0, 1, 2, 3)] + \
                    [micro("ma-set-n%d" % n, "set", True, n, [1], SFAM) for n in (0, 1, 2, 3)]
    else:
        micro_inject = [micro("mi-map-n%d" % n, "map", False, n, [1, 2, 3], MFAM, MaxJ=3, MaxItems=3) for n in (0, 1, 2)] + \
                       [micro("mi-map-n3", "map", False, 3, [1, 2, 3, 4], [f for f in MFAM if f != "binary"], MaxJ=3, MaxItems=3)] + \
                       [micro("mi-map-n4", "map", False, 4, [1, 2, 3, 4, 5], ["core", "entry", "unchecked", "cursor", "clone"])] + \
                       [micro("mi-set-n4", "set", False, 4, [1, 2, 3, 4, 5], ["core", "cursor", "clone"])] + \
                       [micro("mi-set-n%d" % n, "set", False, n, [1, 2, 3], SFAM, MaxItems=3) for n in (0, 1, 2)] + \
                       [micro("mi-set-n3", "set", False, 3, [1, 2, 3, 4], [f for f in SFAM if f != "binary"], MaxItems=4)]
        micro_adv = [micro("ma-map-n%d" % n, "map", True, n, [1], MFAM, MaxJ=4, MaxItems=4) for n in (0, 1, 2, 3, 4)] + \
                    [micro("ma-set-n%d" % n, "set", True, n, [1], SFAM, MaxItems=4) for n in (0, 1, 2, 3, 4)]

    # the binary operations alone (results compared with the model's: ==, !=, predicates, adaptor counts, -)
    micro_bin = [micro("mb-%s-n%d" % (md, n), md, False, n, [1, 2, 3] if n < 3 else [1, 2, 3, 4], ["binary"])
                 for md in ("map", "set") for n in ((1, 2) if q else (1, 2, 3))]

    # quick tier: bulk construction at capacity 3 (three repeats of one item need three slots)
    bulk3 = ([J("bulk-n3", ["bulk"], consts={"Caps": [3], "Classes": [0, 1, 2], "Vers": [0], "Vals": [0], "MaxExtra": 0}),
              J("setbulk-n3", ["bulk"], mode="set", consts={"Caps": [3], "Classes": [0, 1, 2], "Vers": [0], "MaxExtra": 0})] if q else [])

    # quick tier: one slice at capacity 3 / 4 of the families whose control flow depends on positions
    # (first / middle / last slot, several located keys): one key version, one value content
    def deep(tag, family, mode="map", cap=3, **c):
        if not q:
            return []        # (the thorough tier has the full n3 / n4 graphs)
        consts = {"Caps": [cap], "Classes": list(range(cap + 1)), "Vers": [0], "Vals": [0]}
        consts.update(c)
        return [J("%s-q%d" % (tag, cap), family, mode, consts)]

    def trace(tag, mode):
        return dict(tag=tag, spec="trace", mode=mode, family=["trace"], runs=(6 if q else 40), steps=(400 if q else 2000),
                    caps=[8, 6, 4, 2], classes=12)

    tmap, tset = [trace("trace-map", "map")], [trace("trace-set", "set")]
    # the same histories with user code panicking in about one call out of eight (C04 along long histories)
    tinj = [dict(trace("trace-inj-map", "map"), inject=0.25), dict(trace("trace-inj-set", "set"), inject=0.25)]
    # one long history in a container of capacity 300 (slot indices beyond one byte)
    tbig = [dict(trace("trace-big", "map"), runs=(1 if q else 3), steps=(1500 if q else 2500), caps=[300], classes=400,
                 profiles=(["release"] if q else ["debug", "release"]))]
    tbigset = [dict(tbig[0], tag="trace-bigset", mode="set", steps=(700 if q else 1500))]
    # one history in a container of 65 600 entries (slot indices beyond two bytes), observed through a window of
    # watched keys: the first slots, the slots around index 65 536, the last slots, absent keys
    thuge = [dict(trace("trace-huge", "map"), runs=1, steps=(250 if q else 1500), caps=[65600], classes=70100, window=True,
                  profiles=(["release"] if q else ["debug", "release"]))]
    qcaps = [(2, 3), (3, 2), (0, 2), (2, 0)]
    tcaps = [(2, 3), (3, 2), (0, 2), (2, 0), (0, 0), (1, 1), (2, 2), (3, 3), (3, 4), (4, 3), (4, 4), (2, 4), (4, 2)]
    core = both("core", ["core"])
    setcore = both("setcore", ["core"], mode="set")

    def shaped(js):
        return [dict(j, shapes=True) for j in js]

    def prof(js, *extra):
        """additional execution environments: asan (release + AddressSanitizer); miri only in the
        thorough tier and only for the small-capacity graphs (the interpreter is very slow)"""
        out = []
        for j in js:
            ex = [e for e in extra if e != "miri" or (not q and "n3" not in j["tag"] and j.get("consts", {}).get("Cap", 0) <= 2)]
            out.append(dict(j, profiles=["debug", "release"] + ex) if ex else j)
        return out
    # every transition of these graphs again with a panic injected into each callback the code makes
    inj_sweeps = [dict(j, sweep="inject") for j in
                  both("core", ["core"]) + both("cef", ["cursor", "entry", "fmt", "unchecked"], consts={"Vers": [0]})
                  + both("bulkclone", ["bulk", "clone"], bigconsts={"MaxExtra": 1, "Vers": [0]})
                  + setcore + both("setbc", ["bulk", "clone"], mode="set", consts={"MaxExtra": 1}, bigconsts={"Vers": [0]})]
    table = {
        "C01": shaped(core) + tmap + tbig + thuge + deep("core", ["core"]),
        "C07": shaped(setcore + both("setbulk", ["bulk"], mode="set", consts={"MaxExtra": 1}, bigconsts={"Vers": [0]})) + tset + deep("setcore", ["core"], mode="set"),
        "C09": shaped(both("cursor", ["cursor"])) + shaped(setcore) + tmap + tset + thuge + deep("cursor", ["cursor"]) + deep("setcore", ["core"], mode="set"),
        "C10": shaped(both("cursor", ["cursor"]) + core) + setcore + tmap + tset + thuge + deep("cursor", ["cursor"]) + deep("setcore", ["core"], mode="set"),
        "C11": both("entry", ["entry"]) + tmap + thuge + deep("entry", ["entry"]),
        "C12": core + both("entry", ["entry"]) + setcore + tmap + tset
               # bulk construction over the element shapes too: Extend<&T> (Copy elements only) is reachable with the
               # plain tagged shape alone, and "the first key object is kept" is stored-key identity
               + shaped(both("bulk", ["bulk"], bigconsts={"MaxExtra": 1}) + both("setbulk", ["bulk"], mode="set", consts={"MaxExtra": 1}, bigconsts={"Vers": [0]})),
        "C13": prof(both("disjoint", ["disjoint"], consts={"Vers": [0], "MaxKs": 3}, bigconsts={"MaxKs": 4}), "asan", "miri") + tmap + tbig
               + deep("disjoint", ["disjoint"], cap=4, MaxKs=3) + thuge,
        # (MaxExtra = 2: an overflow that is not caused by the LAST item of the source - how far the source was consumed is part of the result)
        "C16": both("bulk", ["bulk"], consts={"MaxExtra": 2}, bigconsts={"MaxExtra": 1}) + both("setbulk", ["bulk"], mode="set", consts={"MaxExtra": 2}, bigconsts={"Vers": [0], "MaxExtra": 1}) + bulk3 + tmap + tset,
        "C18": shaped(both("unchecked", ["unchecked"], consts={"MaxKs": 3}, bigconsts={"Vers": [0], "MaxKs": 4})) + tmap + tbig
               + deep("unchecked", ["unchecked"], cap=4, MaxKs=3) + thuge,
        "C19": both("fmt", ["fmt", "cursor"]) + core + setcore + pairs("alg", ["algebra"], "set", qcaps[:2] if q else tcaps[:6])
               + ([J("fmt-n3", ["fmt"], consts={"Caps": [3], "Vers": [0], "Vals": [0]}), J("setfmt-n3", ["fmt"], mode="set", consts={"Caps": [3], "Vers": [0]})] if q else []),
        "C08": pairs("alg", ["algebra"], "set", qcaps if q else tcaps) + tset + tbigset + [j for j in micro_bin if j["mode"] == "set"],
        "C14": tbigset + micro_bin + tmap + tset + (tbig if not q else []) + shaped(both("clone", ["clone"]) + both("setclone", ["clone"], mode="set"))
               + [dict(tag="eq4-%s" % md, spec="pair", family=["eq"], mode=md,
                       consts=({"CapA": 4, "CapB": 4, "Classes": [0, 1, 2, 3, 4], "Vals": [0]} if md == "set" or q
                               else {"CapA": 4, "CapB": 4, "Classes": [0, 1, 2, 3], "Vals": [0, 1]})) for md in ("set", "map")]
               + pairs("eqset", ["eq"], "set", qcaps if q else tcaps) + pairs("eqmap", ["eq"], "map", qcaps[:2] if q else tcaps[:9]),
        "C15": shaped(both("clone", ["clone"]) + both("setclone", ["clone"], mode="set")),
        "C20": both("serde", ["serde"]) + both("setserde", ["serde"], mode="set"),
        "C06": tbig + prof(shaped(core), *([] if q else ["stdfeat"])) + both("cursor", ["cursor"]) + shaped(both("efdc", ["entry", "fmt", "disjoint", "clone", "unchecked"], consts={"Vers": [0]}))
               + shaped(setcore + both("setclone", ["clone"], mode="set"))
               + shaped(both("bulk", ["bulk"], bigconsts={"MaxExtra": 1})) + shaped(both("setbulk", ["bulk"], mode="set", consts={"MaxExtra": 1}, bigconsts={"Vers": [0]}))
               + pairs("alg", ["algebra", "eq"], "set", qcaps[:2] if q else tcaps[:8]) + pairs("eqmap", ["eq"], "map", qcaps[:1] if q else tcaps[:4]),
        "C04": tinj + micro_inject + ([] if q else micro_bin) + inj_sweeps
               + [dict(j, sweep="inject") for j in pairs("algsweep", ["algebra", "eq"], "set", qcaps[:2] if q else tcaps[:6])],
        "C17": prof(micro_adv, "asan", "miri") + prof([dict(j, sweep="adversarial", max_leaves=(256 if q else 4096)) for j in
                both("core", ["core"], consts={"Vers": [0]}) + both("ed", ["entry", "disjoint"], consts={"Vers": [0], "Vals": [0]}, bigconsts={"MaxKs": 3})
                + both("bulkclone", ["bulk", "clone"], consts={"Vers": [0], "Vals": [0], "MaxExtra": 1})
                + both("setcore", ["core"], mode="set", consts={"Vers": [0]}) + both("setbc", ["bulk"], mode="set", consts={"MaxExtra": 1, "Vers": [0]})]
                    + [dict(j, sweep="adversarial", max_leaves=(64 if q else 512)) for j in pairs("algadv", ["algebra", "eq"], "set", qcaps[:2] if q else tcaps[:6])], "asan"),
        "C05": core + both("ecubc", ["entry", "cursor", "unchecked", "bulk", "clone"], consts={"Vers": [0]}, bigconsts={"MaxExtra": 1}) + setcore
               + both("setbc", ["bulk", "clone"], mode="set", consts={"MaxExtra": 1}, bigconsts={"Vers": [0]}) + tmap + tset + bulk3
               # decoded containers (the container's own output, and hand-made streams with repeated / too many keys)
               + both("serde", ["serde"]) + both("setserde", ["serde"], mode="set") + deep("core", ["core"]) + deep("setcore", ["core"], mode="set"),
        "C02": shaped(core) + prof(shaped(both("cursor", ["cursor"])), "miri") + both("eubc", ["entry", "unchecked", "bulk", "clone"], consts={"Vers": [0]}, bigconsts={"MaxExtra": 1})
               + setcore + both("setbc", ["bulk", "clone"], mode="set", consts={"MaxExtra": 1}, bigconsts={"Vers": [0]}) + tmap + tset
               + both("serde", ["serde"]) + both("setserde", ["serde"], mode="set")
               # "destroyed exactly once overall", "no operation ... destroys a slot that does not hold a live element": also on
               # the way out of a panicking callback (what the ledger reports there counts for C02 as well as for C04)
               + inj_sweeps + thuge,
        "C03": prof(shaped(core) + both("entry", ["entry"]) + shaped(both("bulk", ["bulk"], bigconsts={"MaxExtra": 1})) + shaped(setcore)
                    + shaped(both("setbulk", ["bulk"], mode="set", consts={"MaxExtra": 1}, bigconsts={"Vers": [0]})), "asan", "miri") + thuge,
    }
    return table.get(pid)


def apalache_inductive():
    """C05 / C03 at the design level beyond TLC's capacities: Apalache shows that the representation
    invariant (len <= Cap, keys pairwise different) is INDUCTIVE for the slot-level steps of the crate
    (find-or-append, swap-remove at any index, pop from the back, clear) for every capacity up to 32."""
    d = os.path.join(WORK, "apalache-%d" % os.getpid())
    shutil.rmtree(d, ignore_errors=True)
    os.makedirs(d)
    shutil.copy(os.path.join(SPEC, "MapInd.tla"), d)
    info = {"module": "spec/MapInd.tla", "capacities": "0..32 (sequences generated with Gen(32))", "runs": []}
    for args in (["--init=Init", "--length=0"], ["--init=IndInit", "--length=1"]):
        cmd = ["timeout", "900", "apalache-mc", "check", "--cinit=ConstInit", "--inv=Inv"] + args + ["MapInd.tla"]
        t0 = time.time()
        p = sh(cmd, cwd=d, timeout=1000, check=False)
        ok = "The outcome is: NoError" in p.stdout
        info["runs"].append({"cmd": " ".join(cmd[2:]), "outcome": "NoError" if ok else "ERROR", "wall_s": round(time.time() - t0, 1)})
        if not ok:
            raise ToolError("Apalache does not confirm the inductive invariant (%s):\n%s" % (" ".join(args), p.stdout[-1500:]))
    shutil.rmtree(d, ignore_errors=True)
    return info


def apalache_refinement(tier):
    """C01 / C07 (and the C05 part of every step) beyond TLC's capacities: Apalache shows, for every capacity
    up to 24 and ANY slot contents satisfying the representation invariant, that each slot-level step of the
    crate (scan lookup, find-or-append, swap-remove, pop, clear, every iteration of retain's loop) changes the
    abstract content exactly as the dictionary operation does and returns what the dictionary returns
    (spec/MapRef.tla: action invariant Refines); the thorough tier also shows that the invariant - including
    retain's loop invariant - is inductive."""
    d = os.path.join(WORK, "apalache-ref-%d" % os.getpid())
    shutil.rmtree(d, ignore_errors=True)
    os.makedirs(d)
    shutil.copy(os.path.join(SPEC, "MapRef.tla"), d)
    info = {"module": "spec/MapRef.tla", "capacities": "0..24 (slot sequences generated with Gen(24), keys 0..30, any retain predicate)", "runs": []}
    runs = [["--init=Init", "--inv=IndInv", "--length=0"], ["--init=IndInit", "--inv=Refines", "--length=1"]]
    if tier == "thorough":
        runs.append(["--init=IndInit", "--inv=IndInv", "--length=1"])
    for args in runs:
        cmd = ["timeout", "2400", "apalache-mc", "check", "--cinit=ConstInit"] + args + ["MapRef.tla"]
        t0 = time.time()
        p = sh(cmd, cwd=d, timeout=2500, check=False)
        ok = "The outcome is: NoError" in p.stdout
        info["runs"].append({"cmd": " ".join(cmd[2:]), "outcome": "NoError" if ok else "ERROR", "wall_s": round(time.time() - t0, 1)})
        if not ok:
            raise ToolError("Apalache does not confirm the one-step refinement (%s):\n%s" % (" ".join(args), p.stdout[-1500:]))
    shutil.rmtree(d, ignore_errors=True)
    return info


TLAPS_MODULES = {
    "map": ("MapProof.tla", "MapProofKV.tla", "MapProofRetain.tla", "MapProofId.tla"),
    "alg": ("MapProofAlg.tla", "MapProofEq.tla"),
    "eq": ("MapProofEq.tla",),
    "scan": ("MapProofAlg.tla",),
    "disj": ("MapProofDisj.tla",),
    "bulk": ("MapProofId.tla", "MapProofBulk.tla"),
    "adv": ("MapProofAdv.tla",),
    "panic": ("MapProofPanic.tla",),
    "clone": ("MapProofClone.tla",),
}


def tlaps_proof(group="map"):
    """Unbounded, machine-checked by TLAPS.  group "map" (C05 / C03 / C01 / C07 / C12): the representation
    invariant (len <= Cap, keys pairwise different) is inductive for ANY capacity, key universe and slot-sequence
    length (Init => Inv, Inv /\\ [Next]_slots => Inv', hence []Inv); every slot-level step refines the ideal set
    of keys (spec/MapProof.tla) and the ideal key-value map (spec/MapProofKV.tla); the loop invariant of retain
    and its postcondition (spec/MapProofRetain.tla); stored-key identity (spec/MapProofId.tla).
    group "alg" (C08): the filtered-slot-iterator loop behind difference / intersection / union /
    symmetric_difference yields exactly the mathematical result, without repeats (spec/MapProofAlg.tla); is_subset /
    is_superset / is_disjoint tell the mathematical truth (spec/MapProofEq.tla).
    group "eq" (C14): == as written in eq.rs holds exactly when both operands hold the same pairs; reflexive, symmetric."""
    d = os.path.join(WORK, "tlaps-%d" % os.getpid())
    shutil.rmtree(d, ignore_errors=True)
    os.makedirs(d)
    out = []
    for dep in ("MapProofKV.tla", "MapProofId.tla"):       # (MapProofRetain / MapProofBulk extend them)
        shutil.copy(os.path.join(SPEC, dep), d)
    for mod in TLAPS_MODULES[group]:
        shutil.copy(os.path.join(SPEC, mod), d)
        t0 = time.time()
        p = sh(["timeout", "900", "tlapm", "--threads", "8", "--cleanfp", mod], cwd=d, timeout=1000, check=False)
        m = re.search(r"All (\d+) obligations proved", p.stdout)
        if not m:
            raise ToolError("TLAPS does not prove spec/%s:\n%s" % (mod, p.stdout[-1500:]))
        out.append({"module": "spec/" + mod, "obligations_proved": int(m.group(1)), "bound": "none (any capacity / length, any keys, any values)", "wall_s": round(time.time() - t0, 1)})
    shutil.rmtree(d, ignore_errors=True)
    return out


def apalache_disjoint(tier):
    """C13 / C18 at the design level beyond TLC's graphs: for ANY slot sequence with pairwise different
    keys and ANY request of pairwise different keys (sizes below), the transcribed one-pass stack
    algorithm of get_disjoint_unchecked_mut never overflows its stack, splits at strictly increasing
    indices and hands every position the slot a plain scan finds."""
    n, j = (6, 3) if tier == "quick" else (10, 4)
    d = os.path.join(WORK, "apalache-disj-%d" % os.getpid())
    shutil.rmtree(d, ignore_errors=True)
    os.makedirs(d)
    src = open(os.path.join(SPEC, "MapDisj.tla")).read().replace("Gen(10)", "Gen(%d)" % n).replace("Gen(4)", "Gen(%d)" % j)
    open(os.path.join(d, "MapDisj.tla"), "w").write(src)
    cmd = ["timeout", "2400", "apalache-mc", "check", "--init=Init", "--inv=Inv", "--length=0", "MapDisj.tla"]
    t0 = time.time()
    p = sh(cmd, cwd=d, timeout=2500, check=False)
    if "The outcome is: NoError" not in p.stdout:
        raise ToolError("Apalache does not confirm the disjoint-borrow invariant:\n%s" % p.stdout[-1500:])
    shutil.rmtree(d, ignore_errors=True)
    return {"module": "spec/MapDisj.tla", "slots_up_to": n, "request_up_to": j, "keys": "arbitrary integers", "outcome": "NoError",
            "cmd": " ".join(cmd[2:]), "wall_s": round(time.time() - t0, 1)}


def nostd_probe():
    """C06, compile-time clause: the crate builds without the standard library.
    Build the library alone with default features (where #![no_std] must be in effect)
    and read the crates the produced rlib links against: core (+compiler_builtins) only."""
    tdir = os.path.join(WORK, "probe-nostd")
    p = sh(["cargo", "+nightly", "build", "--lib", "--offline", "--quiet", "--target-dir", tdir], cwd=REPO, timeout=900, check=False)
    info = {"cmd": "cargo +nightly build --lib (default features) ; rustc +nightly -Zls=root libmicromap.rlib"}
    if p.returncode != 0:
        raise ToolError("the library does not build on its own: %s" % p.stdout[-2000:])
    rlib = os.path.join(tdir, "debug", "libmicromap.rlib")
    q = sh(["rustc", "+nightly", "-Zls=root", rlib], timeout=120, check=False)
    if q.returncode != 0 or "=External Dependencies=" not in q.stdout:
        raise ToolError("cannot read crate metadata: %s" % q.stdout[-1000:])
    deps = []
    for line in q.stdout.split("=External Dependencies=")[1].splitlines():
        m = re.match(r"\s*\d+\s+([A-Za-z0-9_]+)-[0-9a-f]+\s", line)
        if m:
            deps.append(m.group(1))
    info["links_against"] = deps
    fails = []
    if "std" in deps:
        fails.append(({"C06"}, {"how": "build probe", "msg": "built with default features the library links against std: %s" % deps}))
    info["alloc_crate_linked"] = "alloc" in deps
    return info, fails


GATES = {  # failure attributions that make a check for <pid> report a violation
    "C03": {"C03", "CRASH"},
    # "within those preconditions both uphold every other guarantee (ownership, key uniqueness, bounds, stored-key identity)"
    "C18": {"C18", "C02", "C05", "C12", "C03", "CRASH"},
    # "for repeated keys the last value wins and the first key object is kept"
    "C16": {"C16", "C12", "CRASH"},
    # "formatting never changes the container": an element destroyed or touched while rendering
    "C19": {"C19", "C02", "CRASH"},
}


def widened_ok(pid, props, ex):
    """the widened gates of GATES apply only to the calls the property's statement is about"""
    if pid in props:
        return True
    name = ((ex.get("transition") or {}).get("o") or {}).get("name", "")
    if pid == "C19":       # "formatting never changes the container": only calls that render something
        return name in ("fmt", "s_fmt", "cursor", "drain", "s_drain", "s_iter", "s_into_iter") or name == ""
    if pid == "C16":       # bulk construction only
        return name in ("from_iter", "from_array", "s_from_iter", "s_from_array", "s_extend") or name == ""
    if pid == "C18":       # the unsafe fast paths only
        return name in ("insert_unchecked", "disjoint") or name == ""
    return True


def known_sites(pid):
    try:
        kf = json.load(open(os.path.join(ROOT, "known_findings.json")))
    except Exception:
        return {}
    return {k["site"]: k for k in kf.get("known", []) if k.get("property") == pid}


def run_check(pid, tier, seed):
    t0 = time.time()
    jobs = jobs_for(pid, tier)
    if jobs is None:
        raise ToolError("no engine registered for %s" % pid)
    summary, failures = mapgraph(pid, tier, seed, jobs, ["debug", "release"])
    if pid == "C06":
        info, fl = nostd_probe()
        summary["nostd_probe"] = info
        failures.extend(fl)
    if pid in ("C05", "C03"):
        summary["apalache_inductive_invariant"] = apalache_inductive()
        summary["tlaps_inductive_invariant"] = tlaps_proof()
    if pid in ("C13", "C18"):
        summary["apalache_disjoint"] = apalache_disjoint(tier)
        summary["tlaps_inductive_invariant"] = tlaps_proof("disj")
    if pid == "C12":
        summary["tlaps_inductive_invariant"] = tlaps_proof()
    if pid == "C16":
        summary["tlaps_inductive_invariant"] = tlaps_proof("bulk")
    if pid == "C17":
        summary["tlaps_inductive_invariant"] = tlaps_proof("adv")
    if pid == "C04":
        summary["tlaps_inductive_invariant"] = tlaps_proof("panic")
    if pid == "C15":
        summary["tlaps_inductive_invariant"] = tlaps_proof("clone")
    if pid == "C08":
        summary["tlaps_inductive_invariant"] = tlaps_proof("alg")
    if pid == "C14":
        summary["tlaps_inductive_invariant"] = tlaps_proof("eq")
    if pid in ("C09", "C10"):      # the unfiltered scan: every entry exactly once, exact remaining length
        summary["tlaps_inductive_invariant"] = tlaps_proof("scan")
    if pid in ("C01", "C07"):
        summary["apalache_refinement"] = apalache_refinement(tier)
        summary["tlaps_inductive_invariant"] = tlaps_proof()
    gate = GATES.get(pid, {pid, "CRASH"}) | {"SPEC"}
    # (a rejected trace event is attributed exactly; the widened gates apply to replayed transitions only;
    #  but a failure - a rejected trace event or a replayed transition that disagrees with the model - that no
    #  check running this very job would report is never dropped silently: it is reported here)
    def orphan(props, ex):
        jk = ex.get("jobkey")
        for other in props:
            if any(job_key(j) == jk for j in (jobs_for(other, tier) or [])):
                return False
        return True
    mine = [ex for props, ex in failures
            if ((props & gate and widened_ok(pid, props, ex)) if not ex.get("trace") else pid in props) or orphan(props, ex)]
    # a recorded (not repaired) genuine defect is a finding, not an alarm to keep raising
    known = known_sites(pid)
    if known and mine:
        site_of = lambda ex: ((ex.get("transition") or {}).get("inject") or {}).get("site")
        failing = set((summary.get("sweep") or {}).get("failing_sites", {}).keys())
        if failing and failing <= set(known) and all(site_of(ex) in known for ex in mine):
            for sname in sorted(failing):
                print("KNOWN-FINDING: property=%s %s: %s" % (pid, sname, known[sname].get("what", "")))
            summary["known_findings_seen"] = sorted(failing)
            mine = []
        else:
            mine = [ex for ex in mine if site_of(ex) not in known] or mine
    others = {}
    for props, ex in failures:
        if not (props & gate):
            for p in props:
                others[p] = others.get(p, 0) + 1
    return summary, mine, others, time.time() - t0


def write_evidence(pid, tier, seed, summary, nviol, wall, others):
    os.makedirs(EVID, exist_ok=True)
    ev = {
        "property_id": pid, "tier": tier, "seed": seed, "level": "model_checking",
        "coverage": {
            "states": summary["states"], "transitions": summary["transitions"],
            "traces_validated_against_impl": summary["replayed_edges"] + summary["walk_steps"],
            "samples": summary["samples"][:4] or [{"note": "no transition sampled"}],
            "exhaustive": True,
            "emitted_transitions": summary["emitted"], "replayed_edges": summary["replayed_edges"], "walk_steps": summary["walk_steps"],
            "spec_drift_steps": summary["drift"], "tlc_runs": summary["tlc"], "replays": summary["replays"],
            "op_counts": summary["op_counts"], "other_property_failures_seen": others,
            "nostd_probe": summary.get("nostd_probe"), "sweep": summary.get("sweep"), "element_shapes_edges": summary.get("element_shapes"),
            "apalache_inductive_invariant": summary.get("apalache_inductive_invariant"),
            "apalache_disjoint": summary.get("apalache_disjoint"),
            "apalache_refinement": summary.get("apalache_refinement"),
            "tlaps_inductive_invariant": summary.get("tlaps_inductive_invariant"),
            "explanation": "TLC exhaustively explored the stated constants checking the invariants in every state and "
                           "emitted every (state, operation) transition; each emitted transition was replayed against the real crate "
                           "from a canonical construction and along random walks, in debug and release builds.",
        },
        "assumptions": [
            "exhaustive only within the constants listed per TLC run (small-scope hypothesis: control flow depends only on len vs N, first/middle/last position and equal/unequal keys)",
            "element types are the harness' instrumented plain-old-data Key/Val",
            "TLC, the Rust compiler and std are trusted",
        ],
        "wall_s": round(wall, 2), "violations": nviol,
    }
    with open(os.path.join(EVID, pid + ".json"), "w") as f:
        json.dump(ev, f, indent=1)


def main():
    if len(sys.argv) < 2:
        print(__doc__)
        return 2
    cmd = sys.argv[1]
    try:
        if cmd == "setup":
            os.makedirs(WORK, exist_ok=True)
            build_all(["debug", "release", "asan"])
            for f in sorted(os.listdir(SPEC)):
                if f.startswith("MapProof"):      # TLAPS proof modules: parsed and checked by tlapm inside the C05 / C03 checks
                    continue
                if f in ("MapInd.tla", "MapDisj.tla", "MapRef.tla"):      # typed for Apalache (EXTENDS Apalache): checked by its own type checker
                    p = sh(["timeout", "300", "apalache-mc", "typecheck", f], cwd=SPEC, timeout=400, check=False)
                    shutil.rmtree(os.path.join(SPEC, "_apalache-out"), ignore_errors=True)
                    if "Type checker [OK]" not in p.stdout and "EXITCODE: OK" not in p.stdout:
                        raise ToolError("Apalache rejects %s:\n%s" % (f, p.stdout[-2000:]))
                    continue
                if f.endswith(".tla"):
                    p = sh(["tla-sany", f], cwd=SPEC, timeout=120, check=False)
                    if "Semantic errors" in p.stdout or "Fatal" in p.stdout or "Could not parse" in p.stdout or p.returncode != 0:
                        raise ToolError("SANY rejects %s:\n%s" % (f, p.stdout[-2000:]))
            print("setup ok")
            return 0
        if cmd == "replay":
            rp = json.load(open(sys.argv[2]))
            pid, tier, seed = rp["property"], rp.get("tier", "quick"), int(rp.get("seed", 1))
            os.makedirs(WORK, exist_ok=True)
            ex0 = rp["violations"][0]
            job = ex0.get("job")
            if not job:
                raise ToolError("the replay file records no job")
            # (the recorded job key leaves out walks / steps / timeout: take them from the registered job)
            for j in jobs_for(pid, tier) or []:
                if job_key(j) == ex0.get("jobkey"):
                    job = dict(j)
                    break
            job.setdefault("steps", 400 if tier == "quick" else 2000)
            job.setdefault("walks", 30 if tier == "quick" else 200)
            job["tag"] = "replay-" + job.get("tag", "x")
            bins = build_all(sorted({"debug", "release"} | set(job.get("profiles", []))))
            only = ex0.get("transition") if job.get("spec") != "trace" and isinstance(ex0.get("transition"), dict) else None
            st, outs, table, jkey, tag = one_job(pid, tier, seed, job, bins, only=only)
            gate = GATES.get(pid, {pid, "CRASH"}) | {"SPEC"}
            again = []
            for prof, rep, crash in outs:
                if crash is not None:
                    again.append("[%s] %s" % (prof, crash["msg"][:300]))
                    continue
                for prop, exs in rep["fail_examples"].items():
                    if prop in gate:
                        again.extend("[%s] %s: %s" % (prof, e.get("how", ""), e.get("msg", "")[:400]) for e in exs[:2])
            if again:
                for a in again[:6]:
                    print("  " + a)
                print("VIOLATION property=%s replay=%s" % (pid, sys.argv[2]))
                return 1
            print("replay of %s: the recorded violation does not occur on this tree" % sys.argv[2])
            return 0
        if cmd == "matrix":
            tier = sys.argv[sys.argv.index("--tier") + 1] if "--tier" in sys.argv else "quick"
            os.makedirs(WORK, exist_ok=True)
            summary, verdict = run_matrix(tier, int(os.environ.get("VERIF_SEED", "1")))
            out = {pid: [{"how": e.get("how"), "msg": (e.get("msg") or "")[:400], "op": (e.get("transition") or {}).get("o")} for e in v[:2]] for pid, v in verdict.items() if v}
            print("MATRIX " + json.dumps({"violating": sorted(out), "drift": summary["drift"], "examples": out}))
            return 0
        if cmd == "run":
            pid = sys.argv[2]
            tier = os.environ.get("VERIF_TIER", "quick")
            if "--tier" in sys.argv:
                tier = sys.argv[sys.argv.index("--tier") + 1]
            seed = int(os.environ.get("VERIF_SEED", "1"))
            os.makedirs(WORK, exist_ok=True)
            summary, mine, others, wall = run_check(pid, tier, seed)
            write_evidence(pid, tier, seed, summary, len(mine), wall, others)
            if mine:
                os.makedirs(REPLAYS, exist_ok=True)
                h = hashlib.sha1(json.dumps(mine[0], sort_keys=True).encode()).hexdigest()[:10]
                path = os.path.join(REPLAYS, "%s-%s.json" % (pid, h))
                with open(path, "w") as f:
                    json.dump({"property": pid, "tier": tier, "seed": seed, "violations": mine[:10]}, f, indent=1)
                for ex in mine[:3]:
                    print("  %s: %s" % (ex.get("how", ""), ex.get("msg", "")[:600]))
                print("VIOLATION property=%s replay=%s" % (pid, path))
                return 1
            print("%s %s: held on %d states / %d transitions checked by TLC, %d edges + %d walk steps replayed (drift %d) in %.1fs"
                  % (pid, tier, summary["states"], summary["transitions"], summary["replayed_edges"], summary["walk_steps"], summary["drift"], wall))
            return 0
        print(__doc__)
        return 2
    except ToolError as e:
        print("TOOL-ERROR: %s" % e)
        return 2
    except subprocess.TimeoutExpired as e:
        print("TOOL-ERROR: timeout: %s" % e)
        return 2


if __name__ == "__main__":
    sys.exit(main())
