//! Direction B: long random histories on real containers, recorded as one ndjson event
//! per public call (at its return, also on the panic path) for validation by TLC against
//! spec/Trace.tla. This module generates ARGUMENTS only; it computes no expected value.

use crate::cage::Cage;
use crate::common::*;
use crate::elem::{Cls, Key, Val};
use crate::exec::*;
use crate::ledger::{self, Kind};
use micromap::{Map, Set};
use rand::rngs::StdRng;
use rand::{Rng, SeedableRng};
use serde_json::{json, Value};
use std::collections::HashSet;
use std::io::Write;

/// object tags of call arguments and of the object made by `Default`: beyond every positional slot
/// tag (capacities go up to 300 here; the exhaustive graphs use 10 + j and 31)
const TARG: i64 = 1000;
const TFRESH: i64 = 1999;

pub struct Gen {
    pub rng: StdRng,
    pub classes: Cls,
    pub vals: u8,
    /// probability that a call gets a panic injected into one of its first callbacks
    pub inject: f64,
}

impl Gen {
    fn class(&mut self, present: &[Cls]) -> Cls {
        // half of the time a key that is present, so that hits and misses are both common
        if !present.is_empty() && self.rng.gen_bool(0.5) {
            present[self.rng.gen_range(0..present.len())]
        } else {
            self.rng.gen_range(0..self.classes)
        }
    }
    fn k(&mut self, present: &[Cls], j: i64) -> Value {
        json!({"kt": TARG + j, "c": self.class(present), "r": self.rng.gen_range(0..2)})
    }
    fn v(&mut self, j: i64) -> Value {
        json!({"vt": TARG + j, "v": self.rng.gen_range(0..self.vals)})
    }
    fn w(&mut self) -> i64 {
        if self.rng.gen_bool(0.4) {
            NO_WRITE
        } else {
            self.rng.gen_range(0..self.vals) as i64
        }
    }
    fn fin(&mut self, op: &mut Value, left: usize) {
        let (f, j) = match self.rng.gen_range(0..10) {
            0 => ("last", 0),
            1 => ("fold", 0),
            2 => ("nth", 0),
            3 if self.rng.gen_bool(0.15) => ("nth", 2_000_000_000),
            3 => ("nth", self.rng.gen_range(0..left + 3)),
            4 => (["any", "all", "position", "find", "find_map"][self.rng.gen_range(0..5)], self.rng.gen_range(0..left + 2)),
            5 => (["for_each", "reduce", "collect", "min_by", "max_by"][self.rng.gen_range(0..5)], 0),
            _ => ("none", 0),
        };
        op["fin"] = json!(f);
        op["j"] = json!(j);
    }
    fn keep(&mut self, present: &[Cls]) -> Value {
        let mut k: Vec<Cls> = vec![];
        for c in 0..self.classes {
            let p = if present.contains(&c) { 0.6 } else { 0.3 };
            if self.rng.gen_bool(p) {
                k.push(c);
            }
        }
        json!(k)
    }
    fn end(&mut self) -> &'static str {
        if self.rng.gen_bool(0.25) {
            "forget"
        } else {
            "drop"
        }
    }

    /// the entries of ANOTHER container to compare with: the given ones, most of the time with
    /// one small difference (a value, a key, one entry less or more), in an unrelated order
    pub fn other_of(&mut self, mine: &[(Cls, u8)], is_map: bool) -> Vec<(Cls, u8)> {
        let mut b: Vec<(Cls, u8)> = mine.to_vec();
        let absent = |b: &[(Cls, u8)], rng: &mut StdRng, classes: Cls| -> Option<Cls> {
            (0..16).map(|_| rng.gen_range(0..classes)).find(|c| !b.iter().any(|e| e.0 == *c))
        };
        match self.rng.gen_range(0..10) {
            0..=3 => {}
            4 | 5 if is_map && !b.is_empty() => {
                let i = self.rng.gen_range(0..b.len());
                b[i].1 = (b[i].1 + 1) % self.vals.max(2);
            }
            6 | 7 if !b.is_empty() => {
                let i = self.rng.gen_range(0..b.len());
                if let Some(c) = absent(&b, &mut self.rng, self.classes) {
                    b[i].0 = c;
                }
            }
            8 if !b.is_empty() => {
                let i = self.rng.gen_range(0..b.len());
                b.remove(i);
            }
            _ => {
                if let Some(c) = absent(&b, &mut self.rng, self.classes) {
                    b.push((c, 0));
                }
            }
        }
        if !b.is_empty() {
            let r = self.rng.gen_range(0..b.len());
            b.rotate_left(r);
            if self.rng.gen_bool(0.5) {
                b.reverse();
            }
        }
        b
    }

    /// items of a bulk construction: keys drawn so that repeats and present keys are common
    fn items(&mut self, present: &[Cls], n: usize, with_v: bool) -> Value {
        let v: Vec<Value> = (1..=n as i64)
            .map(|j| {
                let k = self.k(present, j);
                let val = if with_v { self.v(j) } else { json!({"vt": 0, "v": 0}) };
                json!({"k": k, "v": val})
            })
            .collect();
        json!(v)
    }
    fn hint(&mut self) -> &'static str {
        ["none", "exact", "zero"][self.rng.gen_range(0..3)]
    }

    pub fn map_op(&mut self, present: &[Cls], cap: usize) -> Value {
        let len = present.len();
        // bulk construction replaces an EMPTY container (collect / From<[_; N]>): up to one item too many
        if len == 0 && self.rng.gen_bool(0.3) {
            if cap <= 16 && self.rng.gen_bool(0.3) {
                let it = self.items(&[], cap, true);
                return json!({"name": "from_array", "items": it});
            }
            let n = self.rng.gen_range(0..=cap.min(24) + 1);
            let narrow: Vec<Cls> = if self.rng.gen_bool(0.35) { vec![] } else { (0..(n as Cls / 2 + 1)).collect() }; // (repeats are common; sometimes more distinct keys than fit)
            let mut it = self.items(&narrow, n, true);
            if cap <= 24 && self.rng.gen_bool(0.25) {
                // more pairwise different keys than fit, the surplus one somewhere in the middle or at the end
                let extra = self.rng.gen_range(0..2usize);
                it = self.items(&[], cap + 1 + extra, true);
                for (j, x) in it.as_array_mut().unwrap().iter_mut().enumerate() {
                    x["k"]["c"] = json!(j as Cls % self.classes.max(1));
                }
            }
            return json!({"name": "from_iter", "items": it, "hint": self.hint()});
        }
        // large containers: fill them up first (mostly fresh keys), then stay near the top
        if cap > 16 && len < cap - 4 && self.rng.gen_bool(0.85) {
            let mut c = self.rng.gen_range(0..self.classes);
            for _ in 0..8 {
                if !present.contains(&c) {
                    break;
                }
                c = self.rng.gen_range(0..self.classes);
            }
            return json!({"name": "insert", "k": {"kt": TARG + 1, "c": c, "r": 0}, "v": self.v(1)});
        }
        if cap > 16 && len > 180 && self.rng.gen_bool(0.03) {
            // a very long request (J = 200): most of it present, the rest absent, all different
            let mut ks: Vec<Cls> = present.iter().rev().take(185).copied().collect();
            let mut extra: Cls = 5000;
            while ks.len() < 200 {
                ks.push(extra);
                extra += 1;
            }
            return json!({"name": "disjoint", "ks": ks, "w": self.w(), "unchecked": self.rng.gen_bool(0.5)});
        }
        if cap > 16 && len > 8 && self.rng.gen_bool(0.3) {
            // large containers: requests that reach the highest slots (indices beyond one byte),
            // mixed with low slots and absent keys
            let j = self.rng.gen_range(2..=4usize);
            let mut ks: Vec<Cls> = vec![];
            for a in 0..j {
                let c = match (a + self.rng.gen_range(0..3usize)) % 3 {
                    0 => present[len - 1 - self.rng.gen_range(0..len.min(48))],
                    1 => present[self.rng.gen_range(0..len)],
                    _ => self.rng.gen_range(0..self.classes),
                };
                ks.push(c);
            }
            let distinct = (0..ks.len()).all(|a| (a + 1..ks.len()).all(|b| ks[a] != ks[b]));
            let unchecked = distinct && self.rng.gen_bool(0.4);
            return json!({"name": "disjoint", "ks": ks, "w": self.w(), "unchecked": unchecked});
        }
        if self.rng.gen_bool(0.04) {
            return json!({"name": "eq_other"});
        }
        let mut x = self.rng.gen_range(0..100);
        if cap > 16 && (x == 62 || x == 63 || (64..=79).contains(&x)) && self.rng.gen_bool(0.9) {
            x = 40; // large containers: emptying calls (clear, drop, drain, consuming cursors) only rarely
        }
        match x {
            0..=21 => {
                let nm = ["insert", "insert", "insert_key_value", "checked_insert"][self.rng.gen_range(0..4)];
                json!({"name": nm, "k": self.k(present, 1), "v": self.v(1)})
            }
            22..=37 => {
                let nm = ["get", "get_key_value", "contains_key", "index"][self.rng.gen_range(0..4)];
                json!({"name": nm, "c": self.class(present), "form": self.rng.gen_range(0..2)})
            }
            38..=45 => {
                let nm = ["get_mut", "index_mut"][self.rng.gen_range(0..2)];
                json!({"name": nm, "c": self.class(present), "form": self.rng.gen_range(0..2), "w": self.w()})
            }
            46..=57 => {
                let nm = ["remove", "remove_entry"][self.rng.gen_range(0..2)];
                json!({"name": nm, "c": self.class(present), "form": self.rng.gen_range(0..2)})
            }
            58..=61 => json!({"name": "retain", "keep": self.keep(present), "w": self.w()}),
            62 if cap <= 16 || self.rng.gen_bool(0.1) => json!({"name": "clear"}),
            62 if self.rng.gen_bool(0.5) => json!({"name": "eq_other"}),
            62 => json!({"name": "eq_clone"}),
            63 => json!({"name": "drop"}),
            64..=67 => {
                let n = self.rng.gen_range(0..=len);
                let mut op = json!({"name": "drain", "n": n, "end": self.end()});
                self.fin(&mut op, len - n);
                op
            }
            68..=79 => {
                let kinds = ["iter", "iter_mut", "keys", "values", "values_mut", "into_iter", "into_keys", "into_values"];
                let kind = kinds[self.rng.gen_range(0..kinds.len())];
                let n = self.rng.gen_range(0..=len);
                let consuming = kind.starts_with("into_");
                let w = if kind.ends_with("_mut") { self.w() } else { NO_WRITE };
                let mut op = json!({"name": "cursor", "kind": kind, "n": n, "w": w, "end": if consuming { self.end() } else { "drop" }});
                self.fin(&mut op, len - n);
                op
            }
            80..=91 => {
                let ms = [
                    "key", "or_insert", "or_insert_with", "or_insert_with_key", "or_default", "and_modify", "occ_key", "occ_get",
                    "occ_get_mut", "occ_into_mut", "occ_insert", "occ_remove", "occ_remove_entry", "vac_key", "vac_into_key", "vac_insert",
                ];
                let m = ms[self.rng.gen_range(0..ms.len())];
                let w = if matches!(m, "and_modify" | "occ_get_mut" | "occ_into_mut") { self.rng.gen_range(0..self.vals) as i64 } else { NO_WRITE };
                json!({"name": "entry", "m": m, "k": self.k(present, 1), "v": self.v(1), "w": w})
            }
            _ => {
                let j = self.rng.gen_range(0..=4usize.min(cap + 1));
                let ks: Vec<Cls> = (0..j).map(|_| self.class(present)).collect();
                // inside its contract (pairwise different keys) the unsafe variant is exercised too
                let distinct = (0..ks.len()).all(|a| (a + 1..ks.len()).all(|b| ks[a] != ks[b]));
                let unchecked = distinct && self.rng.gen_bool(0.4);
                json!({"name": "disjoint", "ks": ks, "w": self.w(), "unchecked": unchecked})
            }
        }
    }

    pub fn set_op(&mut self, present: &[Cls], _cap: usize) -> Value {
        let len = present.len();
        if len == 0 && self.rng.gen_bool(0.3) {
            if _cap <= 16 && self.rng.gen_bool(0.3) {
                let it = self.items(&[], _cap, false);
                return json!({"name": "s_from_array", "items": it});
            }
            let n = self.rng.gen_range(0..=_cap.min(24) + 1);
            let narrow: Vec<Cls> = if self.rng.gen_bool(0.35) { vec![] } else { (0..(n as Cls / 2 + 1)).collect() };
            let mut it = self.items(&narrow, n, false);
            if _cap <= 24 && self.rng.gen_bool(0.25) {
                let extra = self.rng.gen_range(0..2usize);
                it = self.items(&[], _cap + 1 + extra, false);
                for (j, x) in it.as_array_mut().unwrap().iter_mut().enumerate() {
                    x["k"]["c"] = json!(j as Cls % self.classes.max(1));
                }
            }
            return json!({"name": "s_from_iter", "items": it, "hint": self.hint()});
        }
        if self.rng.gen_bool(0.04) {
            // Extend: a few items, some present already; now and then more than fit
            let n = self.rng.gen_range(0..7usize);
            let it = self.items(present, n, false);
            return json!({"name": "s_extend", "items": it, "hint": self.hint()});
        }
        if _cap > 16 && len < _cap - 4 && self.rng.gen_bool(0.85) {
            let mut c = self.rng.gen_range(0..self.classes);
            for _ in 0..8 {
                if !present.contains(&c) {
                    break;
                }
                c = self.rng.gen_range(0..self.classes);
            }
            return json!({"name": "s_insert", "k": {"kt": TARG + 1, "c": c, "r": 0}});
        }
        if _cap > 16 && self.rng.gen_bool(0.15) {
            return json!({"name": if self.rng.gen_bool(0.5) { "s_eq_other" } else { "s_eq_clone" }});
        }
        if self.rng.gen_bool(if _cap > 16 { 0.15 } else { 0.06 }) {
            // the container against a second set: a random part of it plus a few foreign elements
            let mut b: Vec<Cls> = present.iter().copied().filter(|_| self.rng.gen_bool(0.5)).collect();
            for _ in 0..self.rng.gen_range(0..3) {
                let c = self.rng.gen_range(0..self.classes);
                if !b.contains(&c) && b.len() < _cap {
                    b.push(c);
                }
            }
            let kind = ["union", "intersection", "difference", "symmetric_difference"][self.rng.gen_range(0..4)];
            return json!({"name": "s_algebra", "kind": kind, "b": b});
        }
        if self.rng.gen_bool(0.04) {
            return json!({"name": "s_eq_other"});
        }
        let mut x = self.rng.gen_range(0..100);
        if _cap > 16 && ((65..=72).contains(&x) || (83..=88).contains(&x)) && self.rng.gen_bool(0.9) {
            x = 30; // large containers: emptying calls only rarely
        }
        match x {
            0..=24 => {
                let nm = ["s_insert", "s_insert", "s_replace"][self.rng.gen_range(0..3)];
                json!({"name": nm, "k": self.k(present, 1)})
            }
            25..=44 => {
                let nm = ["s_contains", "s_get"][self.rng.gen_range(0..2)];
                json!({"name": nm, "c": self.class(present), "form": self.rng.gen_range(0..2)})
            }
            45..=59 => {
                let nm = ["s_remove", "s_take"][self.rng.gen_range(0..2)];
                json!({"name": nm, "c": self.class(present), "form": self.rng.gen_range(0..2)})
            }
            60..=64 => json!({"name": "s_retain", "keep": self.keep(present)}),
            65 if _cap <= 16 || self.rng.gen_bool(0.1) => json!({"name": "s_clear"}),
            65 if self.rng.gen_bool(0.5) => json!({"name": "s_eq_other"}),
            65 => json!({"name": "s_eq_clone"}),
            66 => json!({"name": "s_drop"}),
            67..=72 => {
                let n = self.rng.gen_range(0..=len);
                let mut op = json!({"name": "s_drain", "n": n, "end": self.end()});
                self.fin(&mut op, len - n);
                op
            }
            73..=82 => {
                let n = self.rng.gen_range(0..=len);
                let mut op = json!({"name": "s_iter", "n": n});
                self.fin(&mut op, len - n);
                op
            }
            83..=88 => {
                let n = self.rng.gen_range(0..=len);
                let mut op = json!({"name": "s_into_iter", "n": n, "end": self.end()});
                self.fin(&mut op, len - n);
                op
            }
            _ => {
                let cnt = self.rng.gen_range(0..4);
                let items: Vec<Value> = (1..=cnt).map(|j| json!({"k": self.k(present, j), "v": {"vt": 0, "v": 0}})).collect();
                json!({"name": "s_extend", "items": items})
            }
        }
    }
}

/// ndjson read by TLC has no null: a cursor that cannot show what it still holds says so
fn no_nulls(mut ret: Value) -> Value {
    if let Some(o) = ret.as_object_mut() {
        if o.get("rem").map(|x| x.is_null()).unwrap_or(false) {
            o.insert("rem".into(), json!([]));
            o.insert("norem".into(), json!(true));
        }
    }
    ret
}

fn tags_of(ctx: &Ctx, drops: &[(Kind, u32)]) -> (Vec<i64>, Vec<i64>) {
    let (mut dk, mut dv) = (vec![], vec![]);
    for (kind, sr) in drops {
        match kind {
            Kind::K => dk.push(ctx.tags.ktag(*sr)),
            Kind::V => dv.push(ctx.tags.vtag(*sr)),
        }
    }
    dk.sort();
    dv.sort();
    (dk, dv)
}

/// objects that are alive but neither stored, held by the caller, nor harness probes
fn unplaced(ctx: &Ctx, stored: &[u32], already_leaked: &HashSet<u32>) -> (Vec<i64>, Vec<i64>, Vec<u32>) {
    let mut placed: HashSet<u32> = stored.iter().copied().collect();
    for h in ctx.held.iter().chain(ctx.extras.iter()) {
        match h {
            Owned::K(k) => placed.insert(k.serial),
            Owned::V(v) => placed.insert(v.serial),
        };
    }
    for s in &ctx.stash_serials {
        placed.insert(*s);
    }
    let alive: Vec<(u32, Kind)> = ledger::with(|l| l.alive.iter().map(|(a, b)| (*a, *b)).collect());
    let (mut lk, mut lv, mut srs) = (vec![], vec![], vec![]);
    for (sr, kind) in alive {
        if !placed.contains(&sr) && !already_leaked.contains(&sr) {
            srs.push(sr);
            match kind {
                Kind::K => lk.push(ctx.tags.ktag(sr)),
                Kind::V => lv.push(ctx.tags.vtag(sr)),
            }
        }
    }
    lk.sort();
    lv.sort();
    (lk, lv, srs)
}

fn run_map<const N: usize>(g: &mut Gen, steps: usize, out: &mut impl Write) -> (u64, u64) {
    ledger::reset();
    let mut cage = Cage::new(Map::<Key, Val, N>::new());
    let mut leaked: HashSet<u32> = HashSet::new();
    let mut viol_seen = 0usize;
    let mut events = 0u64;
    let mut panics = 0u64;
    writeln!(out, "{}", json!({"o": {"name": "reset"}, "n": N, "mode": "map"})).unwrap();
    for _ in 0..steps {
        let pre = observe_map(&cage.m);
        let present: Vec<Cls> = pre.iter().map(|(k, _)| k.class).collect();
        let mut op = g.map_op(&present, N);
        if op["name"] == "eq_other" {
            let mine: Vec<(Cls, u8)> = pre.iter().map(|(k, v)| (k.class, v.content)).collect();
            op["b"] = g.other_of(&mine, true).iter().map(|(c, v)| json!([c, v])).collect();
        }
        let mut ctx = Ctx::new(false);
        ctx.fresh_tag = TFRESH;
        for (idx, (k, v)) in pre.iter().enumerate() {
            ctx.tags.bind_k(idx as i64 + 1, k.serial);
            ctx.tags.bind_v(idx as i64 + 1, v.serial);
        }
        let s: Vec<Value> = pre.iter().map(|(k, v)| json!([k.class, k.ver, v.content])).collect();
        ledger::mark();
        // now and then user code panics at one callback of the call (C04 along a long history)
        let inj: u64 = if g.rng.gen_bool(g.inject) { g.rng.gen_range(1..7) } else { 0 };
        ledger::with(|l| l.panic_at = inj);
        let ret = no_nulls(exec_map(&mut cage, &op, &mut ctx));
        ledger::with(|l| l.panic_at = 0);
        let injected = ctx.injected;
        if ctx.panicked {
            panics += 1;
        }
        if let Some(d) = ledger::with(|l| l.defaults.first().copied()) {
            // the object V::default() made is named by a tag of its own
            ctx.tags.bind_v(TFRESH, d);
            op["fresh"] = json!(TFRESH);
        }
        let len = cage.m.len();
        let mut viol: Vec<String> = vec![];
        if !cage.intact() || len > N {
            viol.push("memory outside the container was written or len() exceeds capacity()".into());
            writeln!(out, "{}", json!({"n": N, "mode": "map", "s": s, "o": op, "r": ret, "p": [], "dk": [], "dv": [], "lk": [], "lv": [], "len": len, "empty": false, "viol": viol, "injected": injected})).unwrap();
            std::mem::forget(cage);
            return (events + 1, panics);
        }
        let post = observe_map(&cage.m);
        // re-render the return value now that late-bound objects have their tags
        let ret = if op["fresh"].is_null() { ret } else { rebind_fresh(&ret, &ctx) };
        let p: Vec<Value> = post.iter().map(|(k, v)| json!([ctx.tags.ktag(k.serial), k.class, k.ver, ctx.tags.vtag(v.serial), v.content])).collect();
        let drops = ledger::with(|l| l.drops.clone());
        let (dk, dv) = tags_of(&ctx, &drops);
        let stored: Vec<u32> = post.iter().flat_map(|(k, v)| [k.serial, v.serial]).collect();
        let (lk, lv, srs) = unplaced(&ctx, &stored, &leaked);
        leaked.extend(srs);
        let all_viol = ledger::with(|l| l.viol.clone());
        viol.extend(all_viol.iter().skip(viol_seen).cloned());
        viol_seen = all_viol.len();
        for n in ctx.notes.drain(..) {
            viol.push(format!("[{}] {}", n.props, n.msg));
        }
        writeln!(
            out,
            "{}",
            json!({"n": N, "mode": "map", "s": s, "o": op, "r": ret, "p": p, "dk": dk, "dv": dv, "lk": lk, "lv": lv,
                   "len": len, "empty": cage.m.is_empty(), "viol": viol, "injected": injected})
        )
        .unwrap();
        events += 1;
        drop(ctx);
    }
    drop(cage);
    (events, panics)
}

/// `or_default` returns a reference to the object made by Default: its tag is only known afterwards
fn rebind_fresh(ret: &Value, ctx: &Ctx) -> Value {
    let mut r = ret.clone();
    if let Some(a) = r.as_array_mut() {
        if a.len() >= 2 && a[0] == "vac" {
            if let Some(sr) = ctx.tags.v.get(&TFRESH) {
                let _ = sr;
                a[1] = json!(TFRESH);
            }
        }
    }
    r
}

fn run_set<const N: usize>(g: &mut Gen, steps: usize, out: &mut impl Write) -> (u64, u64) {
    ledger::reset();
    let mut cage = Cage::new(Set::<Key, N>::new());
    let mut leaked: HashSet<u32> = HashSet::new();
    let mut viol_seen = 0usize;
    let mut events = 0u64;
    let mut panics = 0u64;
    writeln!(out, "{}", json!({"o": {"name": "reset"}, "n": N, "mode": "set"})).unwrap();
    for _ in 0..steps {
        let pre = observe_set(&cage.m);
        let present: Vec<Cls> = pre.iter().map(|k| k.class).collect();
        let mut op = g.set_op(&present, N);
        if op["name"] == "s_eq_other" {
            let mine: Vec<(Cls, u8)> = pre.iter().map(|k| (k.class, 0)).collect();
            op["b"] = g.other_of(&mine, false).iter().map(|(c, v)| json!([c, v])).collect();
        }
        let mut ctx = Ctx::new(true);
        for (idx, k) in pre.iter().enumerate() {
            ctx.tags.bind_k(idx as i64 + 1, k.serial);
        }
        let s: Vec<Value> = pre.iter().map(|k| json!([k.class, k.ver, 0])).collect();
        ledger::mark();
        // now and then user code panics at one callback of the call (C04 along a long history)
        let inj: u64 = if g.rng.gen_bool(g.inject) { g.rng.gen_range(1..7) } else { 0 };
        ledger::with(|l| l.panic_at = inj);
        let ret = no_nulls(exec_set(&mut cage, &op, &mut ctx));
        ledger::with(|l| l.panic_at = 0);
        let injected = ctx.injected;
        if ctx.panicked {
            panics += 1;
        }
        let len = cage.m.len();
        let mut viol: Vec<String> = vec![];
        if !cage.intact() || len > N {
            viol.push("memory outside the container was written or len() exceeds capacity()".into());
            writeln!(out, "{}", json!({"n": N, "mode": "set", "s": s, "o": op, "r": ret, "p": [], "dk": [], "dv": [], "lk": [], "lv": [], "len": len, "empty": false, "viol": viol, "injected": injected})).unwrap();
            std::mem::forget(cage);
            return (events + 1, panics);
        }
        let post = observe_set(&cage.m);
        let p: Vec<Value> = post.iter().map(|k| json!([ctx.tags.ktag(k.serial), k.class, k.ver, 0, 0])).collect();
        let drops = ledger::with(|l| l.drops.clone());
        let (dk, _) = tags_of(&ctx, &drops);
        let stored: Vec<u32> = post.iter().map(|k| k.serial).collect();
        let (lk, _, srs) = unplaced(&ctx, &stored, &leaked);
        leaked.extend(srs);
        let all_viol = ledger::with(|l| l.viol.clone());
        viol.extend(all_viol.iter().skip(viol_seen).cloned());
        viol_seen = all_viol.len();
        for n in ctx.notes.drain(..) {
            viol.push(format!("[{}] {}", n.props, n.msg));
        }
        writeln!(
            out,
            "{}",
            json!({"n": N, "mode": "set", "s": s, "o": op, "r": ret, "p": p, "dk": dk, "dv": [], "lk": lk, "lv": [],
                   "len": len, "empty": cage.m.is_empty(), "viol": viol, "injected": injected})
        )
        .unwrap();
        events += 1;
        drop(ctx);
    }
    drop(cage);
    (events, panics)
}

/// `runs` histories of `steps` calls each, capacities drawn from `caps`
pub fn record(path: &str, set_mode: bool, seed: u64, runs: usize, steps: usize, caps: &[usize], classes: Cls, inject: f64) -> Value {
    let mut out = std::io::BufWriter::new(std::fs::File::create(path).expect("trace file"));
    let mut g = Gen { rng: StdRng::seed_from_u64(seed), classes, vals: 3, inject };
    let (mut events, mut panics) = (0u64, 0u64);
    for r in 0..runs {
        let n = caps[r % caps.len()];
        let (e, p) = if set_mode {
            crate::replay::with_n!(n, run_set, &mut g, steps, &mut out)
        } else {
            crate::replay::with_n!(n, run_map, &mut g, steps, &mut out)
        };
        events += e;
        panics += p;
    }
    out.flush().unwrap();
    json!({"events": events, "runs": runs, "container_raised_panics": panics, "caps": caps, "classes": classes})
}

// ------------------------------------------------------------------------------------------------
// A container of MORE THAN 65 536 entries (slot indices beyond two bytes), observed through a WINDOW.
//
// Every call of the vocabulary used here (inserts, lookups, removals, the Entry API, get_disjoint_mut,
// insert_unchecked) speaks about a few keys only; what an ideal dictionary answers depends on whether
// THOSE keys are present, on their values, and on how much room is left. The event therefore records
// the watched keys only (`s`, `p` = the watched entries before / after) plus `hid`, the number of
// entries outside the window, and `hsum`, a checksum over every hidden entry (objects and contents):
// spec/Trace.tla judges the call with Dict!DictAllows on the window at the capacity the hidden entries
// leave (n - hid), and requires that the hidden part is exactly what it was.
pub const HUGE: usize = 65_600;

fn mix(h: u64, x: u64) -> u64 {
    (h ^ x).wrapping_mul(0x9E37_79B9_7F4A_7C15).rotate_left(23)
}

struct Win {
    /// watched entries in pool order
    ents: Vec<(KO, VO)>,
    hid: usize,
    hsum: u64,
    /// checksum over the hidden KEY objects alone (what a `keys()` traversal can show)
    hksum: u64,
}
fn kv_digest(k: &Key, v: &Val) -> u64 {
    mix(mix(mix(mix(k.serial as u64, k.cls.class as u64), k.ver as u64), v.serial as u64), v.content as u64).wrapping_add(((k.magic as u64) << 32) ^ v.magic as u64)
}
fn k_digest(k: &Key) -> u64 {
    mix(mix(k.serial as u64, k.cls.class as u64), k.ver as u64).wrapping_add((k.magic as u64) << 32)
}

fn observe_window<const N: usize>(m: &Map<Key, Val, N>, pool: &[Cls]) -> Win {
    let _q = ledger::Quiet::new();
    let mut ents = vec![];
    let (mut hid, mut hsum, mut hksum) = (0usize, 0u64, 0u64);
    // one pass over the slots: reading fields, no callbacks
    let mut found: Vec<Option<(KO, VO)>> = vec![None; pool.len()];
    for (k, v) in m.iter() {
        match pool.iter().position(|c| *c == k.cls.class) {
            Some(i) if found[i].is_none() => found[i] = Some((ko(k), vo(v))),
            _ => {
                hid += 1;
                hsum = hsum.wrapping_add(kv_digest(k, v));
                hksum = hksum.wrapping_add(k_digest(k));
            }
        }
    }
    for f in found.into_iter().flatten() {
        ents.push(f);
    }
    Win { ents, hid, hsum, hksum }
}

/// A complete traversal with a borrowing cursor: the watched entries it yields are listed, the hidden ones
/// are counted and summed up (the same digest as the window's), exactness of len() / size_hint() before
/// every step and `None` after the end are recorded as instrument notes.
fn cursor_all<const N: usize>(m: &mut Map<Key, Val, N>, kind: &str, pool: &[Cls], ctx: &mut Ctx) -> Value {
    let mut win: Vec<Value> = vec![];
    let (mut hc, mut hs, mut count) = (0usize, 0u64, 0usize);
    let mut inexact = 0usize;
    let mut late = 0usize;
    let span = ctx.span;
    let mut outside = 0usize;
    let tags = &ctx.tags;
    macro_rules! sweep {
        ($it:expr, $kv:expr) => {{
            let mut it = $it;
            ledger::arm();
            let r = std::panic::catch_unwind(std::panic::AssertUnwindSafe(|| {
                let mut expect = it.len();
                loop {
                    let (l, sh) = (it.len(), it.size_hint());
                    if l != expect || sh != (l, Some(l)) {
                        inexact += 1;
                    }
                    let x = match it.next() {
                        Some(x) => x,
                        None => break,
                    };
                    expect = expect.saturating_sub(1);
                    let _s = ledger::Suspend::new();
                    let (k, v): (&Key, Option<&Val>) = $kv(x);
                    count += 1;
                    let ka = k as *const Key as usize;
                    if ka < span.0 || ka + std::mem::size_of::<Key>() > span.1 {
                        outside += 1;
                    }
                    if pool.contains(&k.cls.class) {
                        k.check("yielded key");
                        match v {
                            Some(v) => {
                                v.check("yielded value");
                                win.push(json!([tags.ktag(k.serial), k.cls.class, k.ver, tags.vtag(v.serial), v.content]))
                            }
                            None => win.push(json!([tags.ktag(k.serial), k.cls.class, k.ver])),
                        }
                    } else {
                        hc += 1;
                        hs = hs.wrapping_add(match v {
                            Some(v) => kv_digest(k, v),
                            None => k_digest(k),
                        });
                    }
                }
                for _ in 0..2 {
                    if it.next().is_some() {
                        late += 1;
                    }
                }
            }));
            let na = ledger::disarm();
            (r.is_ok(), na)
        }};
    }
    let (ok, na) = match kind {
        "iter" => {
            fn pair<'a>(x: (&'a Key, &'a Val)) -> (&'a Key, Option<&'a Val>) {
                (x.0, Some(x.1))
            }
            sweep!(m.iter(), pair)
        }
        "iter_mut" => {
            fn shared<'a>(x: (&'a Key, &'a mut Val)) -> (&'a Key, Option<&'a Val>) {
                (x.0, Some(&*x.1))
            }
            sweep!(m.iter_mut(), shared)
        }
        _ => {
            fn konly(k: &Key) -> (&Key, Option<&Val>) {
                (k, None)
            }
            sweep!(m.keys(), konly)
        }
    };
    if !ok {
        ctx.panicked = true;
        return json!(["panic"]);
    }
    if na > 0 {
        ctx.note("C06", format!("{na} allocator call(s) inside a complete traversal"));
    }
    if inexact > 0 {
        ctx.note("C09", format!("len() / size_hint() were not exact before {inexact} step(s) of a complete {kind} traversal"));
    }
    if late > 0 {
        ctx.note("C09", format!("{kind}: an item was yielded after the end"));
    }
    if outside > 0 {
        ctx.note("C06", format!("{kind}: {outside} yielded reference(s) point outside the container value"));
    }
    json!({"win": win, "hc": hc, "hs": format!("{:016x}", hs), "count": count})
}

/// Everything a consuming cursor (Drain / IntoIter) yields until it is exhausted: watched entries listed,
/// hidden ones counted and digested, exact len() / size_hint() before every step, None after the end.
/// The yielded pairs go into `bag` (the caller owns them now).
fn consume_all<I: ExactSizeIterator<Item = (Key, Val)>>(mut it: I, pool: &[Cls], ctx: &Ctx, bag: &mut Vec<(Key, Val)>) -> (Value, Vec<String>) {
    let mut win: Vec<Value> = vec![];
    let (mut hc, mut hs, mut count) = (0usize, 0u64, 0usize);
    let (mut inexact, mut late) = (0usize, 0usize);
    ledger::arm();
    let r = std::panic::catch_unwind(std::panic::AssertUnwindSafe(|| {
        let mut expect = it.len();
        loop {
            let (l, sh) = (it.len(), it.size_hint());
            if l != expect || sh != (l, Some(l)) {
                inexact += 1;
            }
            let (k, v) = match it.next() {
                Some(x) => x,
                None => break,
            };
            expect = expect.saturating_sub(1);
            let _s = ledger::Suspend::new();
            count += 1;
            if pool.contains(&k.cls.class) {
                k.check("yielded key");
                v.check("yielded value");
                win.push(json!([ctx.tags.ktag(k.serial), k.cls.class, k.ver, ctx.tags.vtag(v.serial), v.content]));
            } else {
                hc += 1;
                hs = hs.wrapping_add(kv_digest(&k, &v));
            }
            bag.push((k, v));
        }
        for _ in 0..2 {
            if let Some(x) = it.next() {
                late += 1;
                let _s = ledger::Suspend::new();
                bag.push(x);
            }
        }
        drop(it);
    }));
    let na = ledger::disarm();
    let mut notes = vec![];
    if r.is_err() {
        notes.push("[C10] a complete consuming traversal panicked".to_string());
    } else if na > 0 {
        notes.push(format!("[C06] {na} allocator call(s) inside a complete consuming traversal"));
    }
    if inexact > 0 {
        notes.push(format!("[C10] len() / size_hint() were not exact before {inexact} step(s) of a complete consuming traversal"));
    }
    if late > 0 {
        notes.push("[C10] a consuming cursor yielded an item after the end".to_string());
    }
    (json!({"win": win, "hc": hc, "hs": format!("{:016x}", hs), "count": count}), notes)
}

impl Gen {
    /// a call about watched keys only
    fn win_op(&mut self, pool: &[Cls], present: &[Cls]) -> Value {
        let mut cls = |g: &mut Gen| -> Cls {
            if !present.is_empty() && g.rng.gen_bool(0.45) {
                present[g.rng.gen_range(0..present.len())]
            } else {
                pool[g.rng.gen_range(0..pool.len())]
            }
        };
        match self.rng.gen_range(0..100) {
            0..=21 => {
                let nm = ["insert", "insert", "insert_key_value", "checked_insert"][self.rng.gen_range(0..4)];
                // (mostly NEW keys, so that the container reaches len() == capacity() and stays near it)
                let absent: Vec<Cls> = pool.iter().copied().filter(|c| !present.contains(c)).collect();
                let c = if !absent.is_empty() && self.rng.gen_bool(0.7) { absent[self.rng.gen_range(0..absent.len())] } else { cls(self) };
                json!({"name": nm, "k": {"kt": TARG + 1, "c": c, "r": self.rng.gen_range(0..2)}, "v": self.v(1)})
            }
            22..=33 => {
                let nm = ["get", "get_key_value", "contains_key", "index"][self.rng.gen_range(0..4)];
                json!({"name": nm, "c": cls(self), "form": self.rng.gen_range(0..2)})
            }
            34..=41 => {
                let nm = ["get_mut", "index_mut"][self.rng.gen_range(0..2)];
                json!({"name": nm, "c": cls(self), "form": self.rng.gen_range(0..2), "w": self.w()})
            }
            42..=53 => {
                let nm = ["remove", "remove_entry"][self.rng.gen_range(0..2)];
                json!({"name": nm, "c": cls(self), "form": self.rng.gen_range(0..2)})
            }
            54..=76 => {
                let ms = [
                    "key", "or_insert", "or_insert_with", "or_insert_with_key", "or_default", "and_modify", "occ_key", "occ_get",
                    "occ_get_mut", "occ_into_mut", "occ_insert", "occ_remove", "occ_remove_entry", "vac_key", "vac_into_key", "vac_insert",
                ];
                let m = ms[self.rng.gen_range(0..ms.len())];
                let w = if matches!(m, "and_modify" | "occ_get_mut" | "occ_into_mut") { self.rng.gen_range(0..self.vals) as i64 } else { NO_WRITE };
                json!({"name": "entry", "m": m, "k": {"kt": TARG + 1, "c": cls(self), "r": self.rng.gen_range(0..2)}, "v": self.v(1), "w": w})
            }
            77..=79 => {
                let kind = ["iter", "iter_mut", "keys"][self.rng.gen_range(0..3)];
                json!({"name": "cursor_all", "kind": kind})
            }
            80..=81 => {
                // retain that rejects some watched keys and keeps everything else
                let (mut keep, mut reject) = (vec![], vec![]);
                for c in pool {
                    if present.contains(c) && self.rng.gen_bool(0.25) {
                        reject.push(*c)
                    } else {
                        keep.push(*c)
                    }
                }
                json!({"name": "retain", "keep": keep, "reject": reject, "w": NO_WRITE})
            }
            82..=84 => {
                // only inside its contract: room left, or the key is present
                json!({"name": "insert_unchecked", "k": {"kt": TARG + 1, "c": cls(self), "r": self.rng.gen_range(0..2)}, "v": self.v(1), "contract": true})
            }
            _ => {
                let j = self.rng.gen_range(0..=4usize);
                let ks: Vec<Cls> = (0..j).map(|_| cls(self)).collect();
                let distinct = (0..ks.len()).all(|a| (a + 1..ks.len()).all(|b| ks[a] != ks[b]));
                let unchecked = distinct && self.rng.gen_bool(0.4);
                json!({"name": "disjoint", "ks": ks, "w": self.w(), "unchecked": unchecked})
            }
        }
    }
}

fn run_map_window<const N: usize>(g: &mut Gen, steps: usize, out: &mut impl Write) -> (u64, u64, Value) {
    ledger::reset();
    let mut cage = Cage::new(Map::<Key, Val, N>::new());
    let fill = N - 3;
    {
        // the harness' own preparation: class c lands in slot c (comparisons unchecked and unmeasured)
        let _q = ledger::Quiet::new();
        for c in 0..fill {
            cage.m.insert(Key::new(c as Cls, 0), Val::new((c % 3) as u8));
        }
    }
    // watched keys: the first slots, slots on both sides of the power-of-two boundaries 2^8, 2^10, 2^12, 2^15, 2^16,
    // the last slots, and absent keys
    let mut pool: Vec<Cls> = vec![0, 1, 2, 255, 256, 1_023, 1_024, 4_095, 4_096, 32_767, 32_768, 65_534, 65_535, 65_536, 65_537, 65_538];
    pool.extend([(fill - 3) as Cls, (fill - 2) as Cls, (fill - 1) as Cls]);
    pool.extend((0..10).map(|j| 70_000 + j as Cls));
    pool.sort();
    pool.dedup();
    let mut leaked: HashSet<u32> = HashSet::new();
    let mut viol_seen = 0usize;
    let (mut events, mut panics) = (0u64, 0u64);
    {
        let w0 = observe_window(&cage.m, &pool);
        let init: Vec<Value> = w0.ents.iter().map(|(k, v)| json!([k.class, k.ver, v.content])).collect();
        writeln!(out, "{}", json!({"o": {"name": "reset"}, "n": N, "mode": "map", "init": init})).unwrap();
    }
    let mut max_index_touched = 0usize;
    for phase in 0..2usize {
    for _ in 0..(if phase == 0 { steps } else { 25 }) {
        let pre = observe_window(&cage.m, &pool);
        let present: Vec<Cls> = pre.ents.iter().map(|(k, _)| k.class).collect();
        let pre_len = cage.m.len();
        let mut op = g.win_op(&pool, &present);
        if op["name"] == "insert_unchecked" {
            // keep the unsafe call inside its contract
            let c = op["k"]["c"].as_u64().unwrap() as Cls;
            if pre_len >= N && !present.contains(&c) {
                op["name"] = json!("insert");
            }
            op.as_object_mut().unwrap().remove("contract");
        }
        let mut ctx = Ctx::new(false);
        ctx.fresh_tag = TFRESH;
        for (idx, (k, v)) in pre.ents.iter().enumerate() {
            ctx.tags.bind_k(idx as i64 + 1, k.serial);
            ctx.tags.bind_v(idx as i64 + 1, v.serial);
        }
        let s: Vec<Value> = pre.ents.iter().map(|(k, v)| json!([k.class, k.ver, v.content])).collect();
        ledger::mark();
        let ret = if op["name"] == "cursor_all" {
            ctx.span = cage.span();
            cursor_all(&mut cage.m, op["kind"].as_str().unwrap(), &pool, &mut ctx)
        } else {
            no_nulls(exec_map(&mut cage, &op, &mut ctx))
        };
        if ctx.panicked {
            panics += 1;
        }
        if let Some(d) = ledger::with(|l| l.defaults.first().copied()) {
            ctx.tags.bind_v(TFRESH, d);
            op["fresh"] = json!(TFRESH);
        }
        let len = cage.m.len();
        let mut viol: Vec<String> = vec![];
        if !cage.intact() || len > N {
            viol.push("memory outside the container was written or len() exceeds capacity()".into());
            writeln!(out, "{}", json!({"n": N, "mode": "map", "s": s, "o": op, "r": ret, "p": [], "dk": [], "dv": [], "lk": [], "lv": [], "len": len, "empty": false, "viol": viol, "injected": false, "hid": pre.hid, "hid2": 0, "hsum": "", "hsum2": "x", "hksum": ""})).unwrap();
            std::mem::forget(cage);
            return (events + 1, panics, json!({"pool": pool}));
        }
        let post = observe_window(&cage.m, &pool);
        let ret = if op["fresh"].is_null() { ret } else { rebind_fresh(&ret, &ctx) };
        let p: Vec<Value> =
            post.ents.iter().map(|(k, v)| json!([ctx.tags.ktag(k.serial), k.class, k.ver, ctx.tags.vtag(v.serial), v.content])).collect();
        let drops = ledger::with(|l| l.drops.clone());
        let (dk, dv) = tags_of(&ctx, &drops);
        // placement over ALL stored objects (one pass, no callbacks)
        let stored: Vec<u32> = cage.m.iter().flat_map(|(k, v)| [k.serial, v.serial]).collect();
        let (lk, lv, srs) = unplaced(&ctx, &stored, &leaked);
        leaked.extend(srs);
        let all_viol = ledger::with(|l| l.viol.clone());
        viol.extend(all_viol.iter().skip(viol_seen).cloned());
        viol_seen = all_viol.len();
        for n in ctx.notes.drain(..) {
            viol.push(format!("[{}] {}", n.props, n.msg));
        }
        // (how far up the touched keys sit: evidence that indices beyond 65 535 are exercised)
        for (i, (k, _)) in cage.m.iter().enumerate() {
            if i > max_index_touched && pool.contains(&k.cls.class) {
                max_index_touched = i;
            }
        }
        writeln!(
            out,
            "{}",
            json!({"n": N, "mode": "map", "s": s, "o": op, "r": ret, "p": p, "dk": dk, "dv": dv, "lk": lk, "lv": lv,
                   "len": len, "empty": cage.m.is_empty(), "viol": viol, "injected": false,
                   "hid": pre.hid, "hid2": post.hid, "hsum": format!("{:016x}", pre.hsum), "hsum2": format!("{:016x}", post.hsum),
                   "hksum": format!("{:016x}", pre.hksum)})
        )
        .unwrap();
        events += 1;
        drop(ctx);
    }
    // ---- the whole content leaves through a consuming cursor: drain() after the first phase (the container
    //      must be empty and reusable: it is refilled and driven on), into_iter() after the second
    {
        let pre = observe_window(&cage.m, &pool);
        let mut ctx = Ctx::new(false);
        for (idx, (k, v)) in pre.ents.iter().enumerate() {
            ctx.tags.bind_k(idx as i64 + 1, k.serial);
            ctx.tags.bind_v(idx as i64 + 1, v.serial);
        }
        let s: Vec<Value> = pre.ents.iter().map(|(k, v)| json!([k.class, k.ver, v.content])).collect();
        ledger::mark();
        let name = if phase == 0 { "drain_all" } else { "into_iter_all" };
        let mut bag: Vec<(Key, Val)> = Vec::with_capacity(N);
        let (ret, notes) = if phase == 0 {
            consume_all(cage.m.drain(), &pool, &ctx, &mut bag)
        } else {
            let old = std::mem::replace(&mut cage.m, Map::new());
            consume_all(old.into_iter(), &pool, &ctx, &mut bag)
        };
        let mut viol: Vec<String> = notes;
        let all_viol = ledger::with(|l| l.viol.clone());
        viol.extend(all_viol.iter().skip(viol_seen).cloned());
        viol_seen = all_viol.len();
        if !cage.intact() {
            viol.push("memory outside the container was written".into());
        }
        let drops = ledger::with(|l| l.drops.clone());
        let (dk, dv) = tags_of(&ctx, &drops);
        let post = observe_window(&cage.m, &pool);
        let p: Vec<Value> =
            post.ents.iter().map(|(k, v)| json!([ctx.tags.ktag(k.serial), k.class, k.ver, ctx.tags.vtag(v.serial), v.content])).collect();
        writeln!(
            out,
            "{}",
            json!({"n": N, "mode": "map", "s": s, "o": {"name": name}, "r": ret, "p": p, "dk": dk, "dv": dv, "lk": [], "lv": [],
                   "len": cage.m.len(), "empty": cage.m.is_empty(), "viol": viol, "injected": false,
                   "hid": pre.hid, "hid2": post.hid, "hsum": format!("{:016x}", pre.hsum), "hsum2": format!("{:016x}", post.hsum),
                   "hksum": format!("{:016x}", pre.hksum)})
        )
        .unwrap();
        events += 1;
        // the caller drops what it was handed, outside every observed call
        drop(bag);
        ledger::mark();
        if phase == 0 {
            // "fully reusable": fill it again (the harness' own preparation) and go on
            {
                let _q = ledger::Quiet::new();
                for c in 0..fill {
                    cage.m.insert(Key::new(c as Cls, 1), Val::new((c % 3) as u8));
                }
            }
            let w0 = observe_window(&cage.m, &pool);
            let init: Vec<Value> = w0.ents.iter().map(|(k, v)| json!([k.class, k.ver, v.content])).collect();
            writeln!(out, "{}", json!({"o": {"name": "reset"}, "n": N, "mode": "map", "init": init})).unwrap();
            events += 1;
        }
    }
    }
    {
        // the final drop of 65 000+ instrumented pairs: every object exactly once - what the ledger saw, and
        // every object that is still alive without being held by anybody, goes into a last event
        let viol_before = ledger::with(|l| l.viol.len());
        let r = std::panic::catch_unwind(std::panic::AssertUnwindSafe(|| drop(cage)));
        let mut viol: Vec<String> = ledger::with(|l| l.viol.iter().skip(viol_before).cloned().collect());
        if r.is_err() {
            viol.push("dropping the container panicked".into());
        }
        let lost = ledger::with(|l| l.alive.keys().filter(|s| !leaked.contains(s)).count());
        if lost > 0 {
            viol.push(format!("{lost} object(s) are still alive after the container was dropped: neither handed out nor destroyed"));
        }
        writeln!(out, "{}", json!({"o": {"name": "final_drop"}, "n": N, "mode": "map", "viol": viol})).unwrap();
        events += 1;
    }
    (events, panics, json!({"pool": pool, "highest_slot_holding_a_watched_key": max_index_touched, "filled": fill}))
}

pub fn record_window(path: &str, set_mode: bool, seed: u64, steps: usize) -> Value {
    assert!(!set_mode, "the windowed trace drives Map");
    let mut out = std::io::BufWriter::new(std::fs::File::create(path).expect("trace file"));
    let mut g = Gen { rng: StdRng::seed_from_u64(seed), classes: 70_100, vals: 3, inject: 0.0 };
    let (events, panics, info) = run_map_window::<HUGE>(&mut g, steps, &mut out);
    out.flush().unwrap();
    let left = ledger::with(|l| l.viol.len());
    json!({"events": events, "runs": 1, "container_raised_panics": panics, "caps": [HUGE], "classes": 70_100, "window": info, "ledger_findings": left})
}
