//! Direction A for the micro model (spec/MapMicro.tla): every complete behaviour TLC
//! printed - (state, call, injected-panic position or comparison script) with the
//! model's callback sequence, outcome and survivors - is replayed into the real crate.
//!
//! Gating (C04 / C17): only the SAFETY predicate, evaluated on the real objects by the
//! instruments (see sweep.rs).  Conformance to the model's prediction (same callbacks in
//! the same order, same outcome, same survivors, same number of comparisons) is
//! reported as SPEC-DRIFT: it says whether TLC's verdict on the model transfers to the
//! code as it stands.  If the code makes MORE callbacks than the model predicts, the
//! extra positions are injected too, so the sweep stays complete for the code's own
//! callbacks.

use crate::replay::{op_label, Env, Fail, Report};
use crate::sweep::{run_any, Mode};
use serde_json::{json, Value};
use std::collections::{BTreeMap, HashSet};

pub struct MicroStats {
    pub lines: u64,
    pub runs: u64,
    pub injected_runs: u64,
    pub extra_positions: u64,
    pub drift_cb: u64,
    pub drift_out: u64,
    pub drift_post: u64,
    pub drift_asked: u64,
    pub cb_kinds: BTreeMap<String, u64>,
    pub failing_sites: BTreeMap<String, u64>,
    pub max_callbacks: u64,
}

fn cb_json(v: &[(char, i64, i64)]) -> Value {
    Value::Array(v.iter().map(|(k, a, b)| json!([k.to_string(), a, b])).collect())
}

pub fn run_micro(path: &str, env: &Env, adv: bool, rep: &mut Report) -> MicroStats {
    let mut st = MicroStats {
        lines: 0,
        runs: 0,
        injected_runs: 0,
        extra_positions: 0,
        drift_cb: 0,
        drift_out: 0,
        drift_post: 0,
        drift_asked: 0,
        cb_kinds: Default::default(),
        failing_sites: Default::default(),
        max_callbacks: 0,
    };
    let mode = if adv { Mode::Adversarial } else { Mode::Inject };
    let text = std::fs::read_to_string(path).expect("cannot read table");
    // (state, op) pairs whose clean run has already been compared for surplus callbacks
    let mut clean_seen: HashSet<String> = HashSet::new();
    for (idx, l) in text.lines().enumerate() {
        if l.trim().is_empty() {
            continue;
        }
        let t: Value = serde_json::from_str(l).expect("bad table line");
        crate::progress(idx);
        st.lines += 1;
        let at = t["at"].as_u64().unwrap_or(0);
        let script: Option<Vec<bool>> =
            if adv { Some(t["script"].as_array().map(|a| a.iter().map(|b| b.as_bool().unwrap_or(false)).collect()).unwrap_or_default()) } else { None };
        let out = run_any(mode, env.set_mode, &t, at, script.clone());
        st.runs += 1;
        if at > 0 {
            st.injected_runs += 1;
        }
        st.max_callbacks = st.max_callbacks.max(out.callbacks);
        let site = || {
            let kind = if at > 0 { out.cb_log.get(at as usize - 1).map(|x| x.0).unwrap_or('?') } else { '-' };
            format!("{}|{}", op_label(&t["o"]), if adv { "eq".to_string() } else { kind.to_string() })
        };
        if !out.fails.is_empty() {
            *st.failing_sites.entry(site()).or_insert(0) += 1;
        }
        for f in &out.fails {
            let mut tt = t.clone();
            tt["inject"] = json!({"callback": at, "site": site()});
            let how = if adv { "scripted (lying) key comparisons from the micro model".to_string() } else { format!("panic injected into user callback {at} (micro model behaviour)") };
            rep.add_fail(&Fail { props: f.props.clone(), msg: f.msg.clone() }, &tt, idx, &how);
        }
        // ---- conformance to the model's prediction (SPEC-DRIFT, never a violation)
        let mut drift: Vec<String> = vec![];
        let exp_cb = &t["cb"];
        let obs_cb = cb_json(&out.cb_tags);
        if &obs_cb != exp_cb {
            st.drift_cb += 1;
            drift.push(format!("callbacks: code {obs_cb} model {exp_cb}"));
        }
        let exp_out = t["out"].as_str().unwrap_or("");
        let obs_out = if out.injected { "injected" } else if out.panicked { "panic" } else { "ok" };
        if exp_out != obs_out {
            st.drift_out += 1;
            drift.push(format!("outcome: code {obs_out} model {exp_out}"));
        }
        // what the call returned, where the model says (binary operations): a wrong answer under
        // lawful comparisons is a violation of the operation's own property, otherwise drift
        if exp_out == "ok" && obs_out == "ok" && t["ret"].as_array().map(|a| !a.is_empty()).unwrap_or(false) && t["ret"] != out.ret {
            if adv {
                drift.push(format!("result: code {} model {}", out.ret, t["ret"]));
            } else {
                let props = match t["o"]["name"].as_str().unwrap_or("") {
                    "b_eq" => "C14",
                    _ => "C08",
                };
                rep.add_fail(&Fail { props: props.into(), msg: format!("the call returned {} where the model computes {}", out.ret, t["ret"]) }, &t, idx, "micro model behaviour");
            }
        }
        if let Some(post) = &out.post {
            let obs: Vec<Value> = post.iter().map(|(k, c, v)| json!([k, c, v])).collect();
            let mut a: Vec<String> = obs.iter().map(|x| x.to_string()).collect();
            let mut b: Vec<String> = t["post"].as_array().map(|x| x.iter().map(|y| y.to_string()).collect()).unwrap_or_default();
            a.sort();
            b.sort();
            if a != b {
                st.drift_post += 1;
                drift.push(format!("survivors: code {:?} model {}", obs, t["post"]));
            }
        }
        if adv {
            let want = t["script"].as_array().map(|a| a.len()).unwrap_or(0);
            if out.eq_asked != want {
                st.drift_asked += 1;
                drift.push(format!("comparisons asked: code {} model {want}", out.eq_asked));
            }
        }
        if !drift.is_empty() {
            rep.drift += 1;
            if rep.drift_examples.len() < 6 {
                rep.drift_examples.push(format!("{} {} at={at}: {}", t["s"], t["o"], drift.join("; ")));
            }
        }
        // ---- completeness for the code's own callbacks: positions the model does not know
        if !adv && at == 0 {
            for (k, _, _) in &out.cb_log {
                *st.cb_kinds.entry(k.to_string()).or_insert(0) += 1;
            }
            let key = format!("{}|{}", t["s"], t["o"]);
            let model_c = exp_cb.as_array().map(|a| a.len()).unwrap_or(0) as u64;
            if clean_seen.insert(key) && out.callbacks > model_c && t["out"] == "ok" {
                for k in (model_c + 1)..=out.callbacks.min(200) {
                    let o2 = run_any(mode, env.set_mode, &t, k, None);
                    st.runs += 1;
                    st.extra_positions += 1;
                    for f in &o2.fails {
                        let mut tt = t.clone();
                        tt["inject"] = json!({"callback": k, "site": format!("{}|extra", op_label(&t["o"]))});
                        rep.add_fail(f, &tt, idx, &format!("panic injected into callback {k}, which the model does not predict"));
                    }
                }
            }
        }
        *rep.op_counts.entry(op_label(&t["o"])).or_insert(0) += 1;
        rep.edges += 1;
        rep.distinct_states.insert(format!("{}:{}", t["n"], t["s"]));
        if rep.samples.len() < 3 && at > 1 && idx % 37 == 5 {
            rep.samples.push(t.clone());
        }
    }
    st
}
