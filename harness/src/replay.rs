//! Direction A: TLC's labelled state graph replayed into the real crate.
//! Every step is judged against the transition TLC emitted for the OBSERVED
//! pre-state: return value, post-content (as a set), which objects were destroyed,
//! leaked, handed out; plus the standing instruments (cage, ledger, placement,
//! C05 predicate, poison).

use crate::cage::{self, Cage, Geometry};
use crate::common::*;
use crate::elem::{Key, Val};
use crate::exec::*;
use crate::ledger::{self, Kind};
use micromap::{Map, Set};
use rand::rngs::StdRng;
use rand::{Rng, SeedableRng};
use serde_json::{json, Value};
use std::collections::{BTreeMap, HashMap, HashSet};

#[derive(Clone, Debug)]
pub struct Fail {
    pub props: String,
    pub msg: String,
}

#[derive(Default)]
pub struct Report {
    pub edges: u64,
    pub walk_steps: u64,
    pub walks: u64,
    pub drift: u64,
    pub drift_examples: Vec<String>,
    pub fail_counts: BTreeMap<String, u64>,
    pub fail_examples: BTreeMap<String, Vec<Value>>,
    pub op_counts: BTreeMap<String, u64>,
    pub distinct_states: HashSet<String>,
    pub poison_active: bool,
    pub samples: Vec<Value>,
}

impl Report {
    pub fn add_fail(&mut self, f: &Fail, t: &Value, line: usize, how: &str) {
        for p in f.props.split(',') {
            let p = p.trim();
            if p.is_empty() {
                continue;
            }
            *self.fail_counts.entry(p.to_string()).or_insert(0) += 1;
            let ex = self.fail_examples.entry(p.to_string()).or_default();
            if ex.len() < 5 {
                ex.push(json!({"line": line, "how": how, "msg": f.msg, "transition": t}));
            }
        }
    }
    pub fn to_json(&self) -> Value {
        json!({
            "edges": self.edges, "walks": self.walks, "walk_steps": self.walk_steps,
            "drift": self.drift, "drift_examples": self.drift_examples,
            "fail_counts": self.fail_counts, "fail_examples": self.fail_examples,
            "op_counts": self.op_counts, "distinct_states": self.distinct_states.len(),
            "poison_active": self.poison_active, "samples": self.samples,
        })
    }
}

fn canon_multiset(v: &Value) -> Value {
    match v {
        Value::Array(a) => {
            let mut s: Vec<String> = a.iter().map(|x| x.to_string()).collect();
            s.sort();
            json!(s)
        }
        other => other.clone(),
    }
}

/// Compare an observed return value with the model's. Order of yielded / listed
/// entries is not part of any property: (equal as multisets, equal as sequences).
pub fn ret_matches(obs: &Value, exp: &Value) -> (bool, bool) {
    if obs == exp {
        return (true, true);
    }
    match (obs, exp) {
        (Value::Object(o), Value::Object(e)) => {
            let mut ok = true;
            let mut exact = true;
            for (k, ev) in e {
                let ov = o.get(k).unwrap_or(&Value::Null);
                if k == "yield" || k == "rem" || k == "cl" || k == "other" || k == "de" {
                    if k == "rem" && ov.is_null() {
                        continue; // this cursor kind has no way to show what it still holds
                    }
                    if canon_multiset(ov) != canon_multiset(ev) {
                        ok = false;
                    }
                    if ov != ev {
                        exact = false;
                    }
                } else if k == "fin" {
                    // what a provided method handed out: the same items (any order), same verdict, same remainder
                    if ov["some"] != ev["some"] || ov["after"] != ev["after"] || canon_multiset(&ov["r"]) != canon_multiset(&ev["r"]) {
                        ok = false;
                    }
                    if ov["r"] != ev["r"] {
                        exact = false;
                    }
                } else if ov != ev {
                    ok = false;
                }
            }
            (ok, ok && exact)
        }
        (Value::Array(o), Value::Array(e)) if o.len() == 2 && e.len() == 2 && o[0] == "ents" && e[0] == "ents" => {
            (canon_multiset(&o[1]) == canon_multiset(&e[1]), false)
        }
        _ => (false, false),
    }
}

/// Zero the object-identity tags inside a return value / entry list, leaving only
/// what equality-based properties can see (classes, versions are kept: they are data).
/// which: 1 = key tags, 2 = value tags, 3 = both.
pub fn strip_tags(v: &Value, which: u8) -> Value {
    // zero positions: key tag AND key version (both are identity, invisible to ==), value tag
    fn z(o: &mut [Value], which: u8, kpos: Option<usize>, vpos: Option<usize>) {
        if which & 1 != 0 {
            if let Some(k) = kpos {
                if k < o.len() {
                    o[k] = json!(0);
                }
                if k + 2 < o.len() {
                    o[k + 2] = json!(0);
                }
            }
        }
        if which & 2 != 0 {
            if let Some(p) = vpos {
                if p < o.len() {
                    o[p] = json!(0);
                }
            }
        }
    }
    fn item(a: &[Value], which: u8) -> Value {
        // untagged item shapes: [kt,c,r,vt,v] / [kt,c,r] / [vt,v]
        let mut o = a.to_vec();
        match a.len() {
            5 => z(&mut o, which, Some(0), Some(3)),
            3 => z(&mut o, which, Some(0), None),
            2 => z(&mut o, which, None, Some(0)),
            _ => {}
        }
        Value::Array(o)
    }
    fn items(v: &Value, which: u8) -> Value {
        match v {
            Value::Array(a) => Value::Array(a.iter().map(|x| x.as_array().map(|y| item(y, which)).unwrap_or(x.clone())).collect()),
            o => o.clone(),
        }
    }
    match v {
        Value::Object(o) => {
            let mut m = o.clone();
            for k in ["yield", "rem", "cl", "other"] {
                if let Some(x) = o.get(k) {
                    m.insert(k.to_string(), items(x, which));
                }
            }
            if let Some(x) = o.get("then") {
                m.insert("then".to_string(), strip_tags(x, which));
            }
            if let Some(x) = o.get("fin") {
                let mut f = x.clone();
                f["r"] = items(&x["r"], which);
                m.insert("fin".to_string(), f);
            }
            Value::Object(m)
        }
        Value::Array(a) if !a.is_empty() && a[0].is_string() => {
            let tag = a[0].as_str().unwrap();
            let mut o = a.clone();
            match tag {
                "val" | "some_val" => z(&mut o, which, None, Some(1)),
                "key" | "occk" | "vack" => z(&mut o, which, Some(1), None),
                "ent" => z(&mut o, which, Some(1), Some(4)),
                "occ" | "vac" => {
                    // [cls,vt,v] | [cls,vt,v,calls] | [cls,kt,c,r,vt,v] | [cls,vt,v,calls,kt,c,r]
                    match o.len() {
                        3 | 4 => z(&mut o, which, None, Some(1)),
                        6 => z(&mut o, which, Some(1), Some(4)),
                        7 => z(&mut o, which, Some(4), Some(1)),
                        _ => {}
                    }
                }
                "pos" => {
                    if let Some(Value::Array(ps)) = o.get(1).cloned() {
                        o[1] = Value::Array(ps.iter().map(|x| strip_tags(x, which)).collect());
                    }
                }
                "ents" => {
                    if let Some(x) = o.get(1).cloned() {
                        o[1] = items(&x, which);
                    }
                }
                _ => {}
            }
            Value::Array(o)
        }
        // a bare list of entries (post content)
        Value::Array(_) => items(v, which),
        o => o.clone(),
    }
}

/// A mismatch that disappears when object identities are ignored is a breach of the
/// identity / ownership properties only, not of the equality-based ones.
fn identity_only(obs: &Value, exp: &Value, as_set: bool) -> Option<&'static str> {
    let eq = |w: u8| {
        let (a, b) = (strip_tags(obs, w), strip_tags(exp, w));
        if as_set {
            canon_multiset(&a) == canon_multiset(&b)
        } else {
            ret_matches(&a, &b).0
        }
    };
    if eq(1) {
        Some("C12")
    } else if eq(2) {
        Some("C02")
    } else if eq(3) {
        Some("C12,C02")
    } else {
        None
    }
}

pub fn op_props(op: &Value, pre_full: bool, exp_ret: &Value) -> String {
    let name = op["name"].as_str().unwrap_or("");
    let mut p: Vec<&str> = vec![];
    match name {
        "insert" | "insert_key_value" | "checked_insert" => {
            p.extend(["C01", "C12"]);
            if pre_full {
                p.push("C03");
            }
        }
        "insert_unchecked" => p.extend(["C18", "C12"]),
        "get" | "get_mut" | "contains_key" | "index" | "index_mut" | "remove" | "retain" | "clear" | "drop" => p.push("C01"),
        "default" | "with_capacity" => p.extend(["C01", "C03"]),
        "s_default" => p.extend(["C07", "C03"]),
        "iter_defaults" => p.push("C09"),
        "get_key_value" | "remove_entry" => p.push("C01"),
        "drain" => p.extend(["C01", "C10", "C12"]),
        "cursor" => {
            let k = op["kind"].as_str().unwrap_or("");
            if k.starts_with("into_") {
                p.extend(["C10", "C12"]);
            } else {
                p.extend(["C09", "C12"]);
            }
        }
        "entry" => {
            p.extend(["C11", "C12"]);
            if pre_full {
                p.push("C03");
            }
        }
        "disjoint" => {
            p.push("C13");
            if op["unchecked"].as_bool().unwrap_or(false) {
                p.push("C18");
            }
        }
        "from_iter" | "from_array" => p.extend(["C16", "C12"]),
        "fmt" | "s_fmt" => p.push("C19"),
        "clone" | "clone_from" | "s_clone_from" => p.push("C15"),
        "serde" => p.push("C20"),
        // what a hand-made stream decodes to is fixed by no listed property (only the decoded container's
        // own well-formedness and the ownership of the objects are, and those are judged separately)
        "de_items" => p.push("DRIFT"),
        "s_insert" | "s_replace" => {
            p.extend(["C07", "C12"]);
            if pre_full {
                p.push("C03");
            }
        }
        "s_contains" | "s_remove" | "s_retain" | "s_clear" | "s_drop" => p.push("C07"),
        "s_get" | "s_take" => p.extend(["C07", "C12"]),
        "s_drain" => p.extend(["C07", "C10", "C12"]),
        "s_iter" => p.extend(["C09", "C12"]),
        "s_into_iter" => p.extend(["C10", "C12"]),
        "s_extend" => p.extend(["C07", "C16", "C12"]),
        "s_from_iter" | "s_from_array" => p.extend(["C16", "C12"]),
        _ => p.push("C01"),
    }
    let panics = exp_ret[0] == "panic" || exp_ret["r"] == "panic";
    if panics && !matches!(name, "index" | "index_mut" | "disjoint") {
        p.push("C03");
    }
    p.sort();
    p.dedup();
    p.join(",")
}

pub struct Env {
    pub geo_map: HashMap<usize, Option<Geometry>>,
    pub geo_set: HashMap<usize, Option<Geometry>>,
    pub set_mode: bool,
}

fn tag_list(v: &Value) -> Vec<i64> {
    let mut x: Vec<i64> = v.as_array().map(|a| a.iter().map(|t| t.as_i64().unwrap()).collect()).unwrap_or_default();
    x.sort();
    x
}

/// everything that is checked after one executed operation; generic over Map / Set
/// through the observed entry list
#[allow(clippy::too_many_arguments)]
fn judge(
    t: &Value,
    ret: &Value,
    ctx: &mut Ctx,
    post: &[(KO, Option<VO>)],
    reported_len: usize,
    reported_empty: bool,
    cap: usize,
    leaked: &mut HashSet<u32>,
    viol_seen: &mut usize,
    fails: &mut Vec<Fail>,
    drift: &mut Option<String>,
) {
    let op = &t["o"];
    let pre_full = t["s"].as_array().map(|a| a.len()).unwrap_or(0) >= cap;
    // an equality-visible mismatch contradicts the call's own property; stored-key identity (C12)
    // only when the mismatch disappears once identities are ignored (identity_only below); the
    // full-container clauses (C03) only when a panic / refusal is involved on either side
    let props = {
        let is_refusal = |v: &Value| v[0] == "panic" || v["r"] == "panic" || (v[0] == "none" && op["name"] == "checked_insert");
        let mut all = op_props(op, pre_full, &t["r"]);
        // a container-raised refusal where the model accepts (e.g. a repeated item arriving when the
        // container is full) contradicts "replacing ... succeeds on a full container"
        let adding = matches!(op["name"].as_str().unwrap_or(""), "from_iter" | "from_array" | "s_from_iter" | "s_from_array" | "s_extend");
        if adding && is_refusal(ret) && !is_refusal(&t["r"]) && !all.split(',').any(|p| p == "C03") {
            all.push_str(",C03");
        }
        let mut keep: Vec<&str> = all.split(',').filter(|p| *p != "C12" && (*p != "C03" || is_refusal(&t["r"]) || is_refusal(ret))).collect();
        if keep.is_empty() {
            keep = all.split(',').collect();
        }
        keep.join(",")
    };
    // the object made by Default during the call is the model's fresh object
    if let Some(d) = ledger::with(|l| l.defaults.first().copied()) {
        if !ctx.tags.v.contains_key(&FRESH) {
            ctx.tags.bind_v(FRESH, d);
        }
    }
    // --- return value
    let mut use_alt = false;
    let (ok, exact) = ret_matches(ret, &t["r"]);
    if !ok {
        if !t["ar"].is_null() && ret_matches(ret, &t["ar"]).0 {
            use_alt = true;
        } else if op["name"] == "de_items" {
            // no listed property fixes what a hand-made stream decodes to: a disagreement with the
            // specification's "fold of inserts" is conformance drift, not a violation
            *drift = Some(format!("decoding a hand-made stream: observed {ret} but the model says {}", t["r"]));
        } else {
            let pr = identity_only(ret, &t["r"], false).map(|x| x.to_string()).unwrap_or(props.clone());
            fails.push(Fail { props: pr, msg: format!("return value: observed {ret} but the model says {}", t["r"]) });
        }
    } else if !exact {
        *drift = Some(format!("order of yielded/listed entries: observed {ret} model {}", t["r"]));
    }
    // --- post content, as a set
    let exp_post = if use_alt { &t["ap"] } else { &t["p"] };
    let obs_post: Vec<Value> = post
        .iter()
        .map(|(k, v)| match v {
            Some(v) => json!([ctx.tags.ktag(k.serial), k.class, k.ver, ctx.tags.vtag(v.serial), v.content]),
            None => json!([ctx.tags.ktag(k.serial), k.class, k.ver, 0, 0]),
        })
        .collect();
    let obs_post_v = Value::Array(obs_post);
    if canon_multiset(&obs_post_v) != canon_multiset(exp_post) {
        let pr = identity_only(&obs_post_v, exp_post, true).map(|x| x.to_string()).unwrap_or(props.clone());
        fails.push(Fail { props: pr, msg: format!("content afterwards: observed {obs_post_v} but the model says {exp_post}") });
    } else if &obs_post_v != exp_post && drift.is_none() {
        *drift = Some(format!("slot order: observed {obs_post_v} model {exp_post}"));
    }
    // --- len / is_empty / capacity agree with what iteration yields (C05)
    if reported_len != post.len() {
        fails.push(Fail { props: "C05".into(), msg: format!("len() = {reported_len} but iteration yields {} entries", post.len()) });
    }
    if reported_empty != (reported_len == 0) {
        fails.push(Fail { props: "C05".into(), msg: format!("is_empty() = {reported_empty} but len() = {reported_len}") });
    }
    for a in 0..post.len() {
        for b in (a + 1)..post.len() {
            if post[a].0.class == post[b].0.class {
                fails.push(Fail { props: "C05".into(), msg: format!("two stored keys are equal (class {})", post[a].0.class) });
            }
            if post[a].0.serial == post[b].0.serial {
                fails.push(Fail { props: "C02,C05".into(), msg: format!("the same key object K#{} is stored twice", post[a].0.serial) });
            }
        }
    }
    // --- destroyed objects
    let (mut dk, mut dv): (Vec<i64>, Vec<i64>) = (vec![], vec![]);
    let drops = ledger::with(|l| l.drops.clone());
    for (kind, sr) in &drops {
        match kind {
            Kind::K => dk.push(ctx.tags.ktag(*sr)),
            Kind::V => dv.push(ctx.tags.vtag(*sr)),
        }
    }
    dk.sort();
    dv.sort();
    let (edk, edv) = (tag_list(&t["dk"]), tag_list(&t["dv"]));
    // Which objects die is an ownership matter (C02) when their NUMBER differs (something was
    // destroyed that should live, or survives that should die); when only the identity differs
    // (the supplied key died instead of the stored one) it is stored-key identity (C12).
    let mut dprops = String::from("C02");
    if props.contains("C03") {
        dprops.push_str(",C03");
    }
    if dk != edk {
        let pr = if dk.len() == edk.len() { "C12".to_string() } else { dprops.clone() };
        fails.push(Fail { props: pr, msg: format!("key objects destroyed during the call: {dk:?}, the model says {edk:?}") });
    }
    if !ctx.set_mode && dv != edv {
        let pr = if dv.len() == edv.len() { "IDV".to_string() } else { dprops.clone() };
        fails.push(Fail { props: pr, msg: format!("value objects destroyed during the call: {dv:?}, the model says {edv:?}") });
    }
    // --- leaked by a forget the harness itself performed
    for tg in tag_list(&t["lk"]) {
        if let Some(sr) = ctx.tags.k.get(&tg) {
            leaked.insert(*sr);
        }
    }
    for tg in tag_list(&t["lv"]) {
        if let Some(sr) = ctx.tags.v.get(&tg) {
            leaked.insert(*sr);
        }
    }
    // --- placement: every live object is in exactly one place (C02)
    let mut placed: HashMap<u32, &'static str> = HashMap::new();
    let mut dup = vec![];
    let mut put = |sr: u32, place: &'static str, dup: &mut Vec<String>| {
        if let Some(old) = placed.insert(sr, place) {
            dup.push(format!("object #{sr} is both {old} and {place}"));
        }
    };
    for (k, v) in post {
        put(k.serial, "stored", &mut dup);
        if let Some(v) = v {
            put(v.serial, "stored", &mut dup);
        }
    }
    for h in &ctx.held {
        match h {
            Owned::K(k) => put(k.serial, "handed to the caller", &mut dup),
            Owned::V(v) => put(v.serial, "handed to the caller", &mut dup),
        }
    }
    for h in &ctx.extras {
        match h {
            Owned::K(k) => put(k.serial, "a harness probe", &mut dup),
            Owned::V(v) => put(v.serial, "a harness probe", &mut dup),
        }
    }
    for sr in &ctx.stash_serials {
        put(*sr, "in a harness-owned container", &mut dup);
    }
    for sr in leaked.iter() {
        put(*sr, "leaked by forget", &mut dup);
    }
    for d in dup {
        fails.push(Fail { props: "C02".into(), msg: d });
    }
    let alive: Vec<u32> = ledger::with(|l| l.alive.keys().copied().collect());
    for sr in &alive {
        if !placed.contains_key(sr) {
            fails.push(Fail { props: "C02".into(), msg: format!("object #{sr} is alive but neither stored, returned nor destroyed (lost)") });
        }
    }
    for (sr, place) in &placed {
        if !alive.contains(sr) {
            fails.push(Fail { props: "C02".into(), msg: format!("object #{sr} is {place} but has been destroyed") });
        }
    }
    // --- illegal uses recorded by the ledger
    let viol = ledger::with(|l| l.viol.clone());
    for v in viol.iter().skip(*viol_seen) {
        fails.push(Fail { props: "C02".into(), msg: v.clone() });
    }
    *viol_seen = viol.len();
    // --- self-consistency / instrument notes
    for n in ctx.notes.drain(..) {
        fails.push(Fail { props: n.props.to_string(), msg: n.msg });
    }
}

pub struct StepOut {
    pub fails: Vec<Fail>,
    pub drift: Option<String>,
    pub fatal: bool,
}

pub fn step_map<const N: usize>(
    cage: &mut Box<Cage<Map<Key, Val, N>>>,
    t: &Value,
    geo: &Option<Geometry>,
    leaked: &mut HashSet<u32>,
    viol_seen: &mut usize,
) -> StepOut {
    let mut ctx = Ctx::new(false);
    let pre = observe_map(&cage.m);
    for (idx, (k, v)) in pre.iter().enumerate() {
        ctx.tags.bind_k(idx as i64 + 1, k.serial);
        ctx.tags.bind_v(idx as i64 + 1, v.serial);
    }
    ledger::mark();
    let ret = exec_map(cage, &t["o"], &mut ctx);
    let mut fails = vec![];
    let mut drift = None;
    // integrity first: nothing else may touch a container whose bounds are broken
    let len = cage.m.len();
    if !cage.intact() || len > N || cage.m.capacity() != N {
        // a container whose bounds are broken is no ideal bounded dictionary / set either
        let pre_full = t["s"].as_array().map(|a| a.len()).unwrap_or(0) >= N;
        fails.push(Fail {
            props: format!("C03,C05,C17,{}", op_props(&t["o"], pre_full, &t["r"])),
            msg: format!("memory outside the container was written or len() = {len} exceeds capacity {N} (canaries intact: {})", cage.intact()),
        });
        return StepOut { fails, drift, fatal: true };
    }
    let post: Vec<(KO, Option<VO>)> = observe_map(&cage.m).into_iter().map(|(k, v)| (k, Some(v))).collect();
    let empty = cage.m.is_empty();
    judge(t, &ret, &mut ctx, &post, len, empty, N, leaked, viol_seen, &mut fails, &mut drift);
    // every yielded key can be looked up and returns the value yielded with it (C05)
    for (k, v) in cage.m.iter() {
        match cage.m.get(k) {
            Some(x) if std::ptr::eq(x, v) => {}
            _ => fails.push(Fail { props: "C05".into(), msg: format!("lookup of the stored key K#{} does not return the value stored with it", k.serial) }),
        }
    }
    if let Some(g) = geo {
        cage::poison(&mut cage.m, g, len);
    }
    drop(ctx);
    StepOut { fails, drift, fatal: false }
}

pub fn step_set<const N: usize>(
    cage: &mut Box<Cage<Set<Key, N>>>,
    t: &Value,
    geo: &Option<Geometry>,
    leaked: &mut HashSet<u32>,
    viol_seen: &mut usize,
) -> StepOut {
    let mut ctx = Ctx::new(true);
    let pre = observe_set(&cage.m);
    for (idx, k) in pre.iter().enumerate() {
        ctx.tags.bind_k(idx as i64 + 1, k.serial);
    }
    ledger::mark();
    let ret = exec_set(cage, &t["o"], &mut ctx);
    let mut fails = vec![];
    let mut drift = None;
    let len = cage.m.len();
    if !cage.intact() || len > N || cage.m.capacity() != N {
        // a container whose bounds are broken is no ideal bounded dictionary / set either
        let pre_full = t["s"].as_array().map(|a| a.len()).unwrap_or(0) >= N;
        fails.push(Fail {
            props: format!("C03,C05,C17,{}", op_props(&t["o"], pre_full, &t["r"])),
            msg: format!("memory outside the container was written or len() = {len} exceeds capacity {N} (canaries intact: {})", cage.intact()),
        });
        return StepOut { fails, drift, fatal: true };
    }
    let post: Vec<(KO, Option<VO>)> = observe_set(&cage.m).into_iter().map(|k| (k, None)).collect();
    let empty = cage.m.is_empty();
    judge(t, &ret, &mut ctx, &post, len, empty, N, leaked, viol_seen, &mut fails, &mut drift);
    for k in cage.m.iter() {
        match cage.m.get(k) {
            Some(x) if std::ptr::eq(x, k) => {}
            _ => fails.push(Fail { props: "C05".into(), msg: format!("lookup of the stored element K#{} does not return it", k.serial) }),
        }
    }
    if let Some(g) = geo {
        cage::poison(&mut cage.m, g, len);
    }
    drop(ctx);
    StepOut { fails, drift, fatal: false }
}

fn state_matches_map<const N: usize>(m: &Map<Key, Val, N>, s: &Value) -> bool {
    let a = s.as_array().unwrap();
    let obs: Vec<Value> = m.iter().map(|(k, v)| json!([k.class(), k.ver, v.content])).collect();
    a == &obs
}
fn state_matches_set<const N: usize>(m: &Set<Key, N>, s: &Value) -> bool {
    let a = s.as_array().unwrap();
    let obs: Vec<Value> = m.iter().map(|k| json!([k.class(), k.ver, 0])).collect();
    a == &obs
}

/// after the container is gone only objects leaked by a harness forget may be alive
fn final_check(leaked: &HashSet<u32>, viol_seen: &mut usize, fails: &mut Vec<Fail>) {
    let alive: Vec<u32> = ledger::with(|l| l.alive.keys().copied().collect());
    for sr in alive {
        if !leaked.contains(&sr) {
            fails.push(Fail { props: "C02".into(), msg: format!("object #{sr} was never destroyed although its container is gone") });
        }
    }
    let viol = ledger::with(|l| l.viol.clone());
    for v in viol.iter().skip(*viol_seen) {
        fails.push(Fail { props: "C02".into(), msg: v.clone() });
    }
    *viol_seen = viol.len();
}

pub fn edge_map<const N: usize>(t: &Value, line: usize, env: &Env, rep: &mut Report) {
    ledger::reset();
    let geo = env.geo_map.get(&N).cloned().flatten();
    let mut cage = Cage::new(Map::<Key, Val, N>::new());
    for e in t["s"].as_array().unwrap() {
        let k = Key::new(e[0].as_u64().unwrap() as crate::elem::Cls, e[1].as_u64().unwrap() as u8);
        let v = Val::new(e[2].as_u64().unwrap() as u8);
        cage.m.insert(k, v);
    }
    let mut fails = vec![];
    if !state_matches_map(&cage.m, &t["s"]) {
        fails.push(Fail { props: "C01,C05".into(), msg: "inserting distinct keys in order did not produce that slot sequence".into() });
    }
    let mut leaked = HashSet::new();
    let mut viol_seen = 0;
    let out = step_map(&mut cage, t, &geo, &mut leaked, &mut viol_seen);
    fails.extend(out.fails);
    if out.fatal {
        std::mem::forget(cage);
    } else {
        drop(cage);
        final_check(&leaked, &mut viol_seen, &mut fails);
    }
    finish(t, line, fails, out.drift, "edge from canonical construction", rep);
}

pub fn edge_set<const N: usize>(t: &Value, line: usize, env: &Env, rep: &mut Report) {
    ledger::reset();
    let geo = env.geo_set.get(&N).cloned().flatten();
    let mut cage = Cage::new(Set::<Key, N>::new());
    for e in t["s"].as_array().unwrap() {
        cage.m.insert(Key::new(e[0].as_u64().unwrap() as crate::elem::Cls, e[1].as_u64().unwrap() as u8));
    }
    let mut fails = vec![];
    if !state_matches_set(&cage.m, &t["s"]) {
        fails.push(Fail { props: "C07,C05".into(), msg: "inserting distinct elements in order did not produce that slot sequence".into() });
    }
    let mut leaked = HashSet::new();
    let mut viol_seen = 0;
    let out = step_set(&mut cage, t, &geo, &mut leaked, &mut viol_seen);
    fails.extend(out.fails);
    if out.fatal {
        std::mem::forget(cage);
    } else {
        drop(cage);
        final_check(&leaked, &mut viol_seen, &mut fails);
    }
    finish(t, line, fails, out.drift, "edge from canonical construction", rep);
}

fn finish(t: &Value, line: usize, fails: Vec<Fail>, drift: Option<String>, how: &str, rep: &mut Report) {
    *rep.op_counts.entry(op_label(&t["o"])).or_insert(0) += 1;
    if let Some(d) = drift {
        rep.drift += 1;
        if rep.drift_examples.len() < 3 {
            rep.drift_examples.push(d);
        }
    }
    for f in &fails {
        rep.add_fail(f, t, line, how);
    }
}

pub fn op_label(op: &Value) -> String {
    let n = op["name"].as_str().unwrap_or("?");
    match n {
        "cursor" => format!("cursor:{}", op["kind"].as_str().unwrap_or("")),
        "entry" => format!("entry:{}", op["m"].as_str().unwrap_or("")),
        "clone" => format!("clone+{}", op["then"]["name"].as_str().unwrap_or("")),
        _ => n.to_string(),
    }
}

pub struct Table {
    pub lines: Vec<Value>,
    /// (cap, state) -> indices of the transitions leaving it
    pub by_state: HashMap<(usize, String), Vec<usize>>,
    pub caps: Vec<usize>,
}

impl Table {
    pub fn load(path: &str) -> Table {
        let text = std::fs::read_to_string(path).expect("cannot read table");
        let mut lines = vec![];
        let mut by_state: HashMap<(usize, String), Vec<usize>> = HashMap::new();
        let mut caps = vec![];
        for l in text.lines() {
            if l.trim().is_empty() {
                continue;
            }
            let v: Value = serde_json::from_str(l).expect("bad table line");
            let n = v["n"].as_u64().unwrap() as usize;
            if !caps.contains(&n) {
                caps.push(n);
            }
            by_state.entry((n, v["s"].to_string())).or_default().push(lines.len());
            lines.push(v);
        }
        caps.sort();
        Table { lines, by_state, caps }
    }
}

macro_rules! with_n {
    ($n:expr, $f:ident, $($a:expr),*) => {
        match $n {
            0 => $f::<0>($($a),*),
            1 => $f::<1>($($a),*),
            2 => $f::<2>($($a),*),
            3 => $f::<3>($($a),*),
            4 => $f::<4>($($a),*),
            5 => $f::<5>($($a),*),
            6 => $f::<6>($($a),*),
            8 => $f::<8>($($a),*),
            300 => $f::<300>($($a),*),
            other => panic!("capacity {other} is not instantiated in the harness"),
        }
    };
}
pub(crate) use with_n;

pub fn measure_all(set_mode: bool, caps: &[usize]) -> Env {
    ledger::reset();
    let mut env = Env { geo_map: HashMap::new(), geo_set: HashMap::new(), set_mode };
    fn gm<const N: usize>(env: &mut Env) {
        let g = if cfg!(miri) && false { None } else { cage::measure_map::<N>() };
        env.geo_map.insert(N, g);
    }
    fn gs<const N: usize>(env: &mut Env) {
        let g = cage::measure_set::<N>();
        env.geo_set.insert(N, g);
    }
    for &n in caps {
        if set_mode {
            with_n!(n, gs, &mut env);
        } else {
            with_n!(n, gm, &mut env);
        }
    }
    ledger::reset();
    env
}

pub fn run_edges(table: &Table, env: &Env, rep: &mut Report, stride: usize, offset: usize) {
    for (idx, t) in table.lines.iter().enumerate() {
        if stride > 1 && idx % stride != offset {
            continue;
        }
        let n = t["n"].as_u64().unwrap() as usize;
        crate::progress(idx);
        if env.set_mode {
            with_n!(n, edge_set, t, idx, env, rep);
        } else {
            with_n!(n, edge_map, t, idx, env, rep);
        }
        rep.edges += 1;
        rep.distinct_states.insert(format!("{n}:{}", t["s"]));
        if rep.samples.len() < 3 && idx % 997 == 3 {
            rep.samples.push(t.clone());
        }
    }
}

fn walk_map<const N: usize>(table: &Table, env: &Env, rng: &mut StdRng, steps: usize, rep: &mut Report) {
    ledger::reset();
    let geo = env.geo_map.get(&N).cloned().flatten();
    let mut cage = Cage::new(Map::<Key, Val, N>::new());
    let mut leaked = HashSet::new();
    let mut viol_seen = 0;
    let mut fatal = false;
    for _ in 0..steps {
        let st: Vec<Value> = cage.m.iter().map(|(k, v)| json!([k.class(), k.ver, v.content])).collect();
        let key = (N, Value::Array(st).to_string());
        let Some(edges) = table.by_state.get(&key) else {
            // no transition of the enumerated family starts here (e.g. bulk construction only starts from
            // an empty container): fine if the state is well-formed - the walk simply ends; otherwise C05
            let cls: Vec<crate::elem::Cls> = cage.m.iter().map(|(k, _)| k.class()).collect();
            let distinct = (0..cls.len()).all(|a| (a + 1..cls.len()).all(|b| cls[a] != cls[b]));
            if !(distinct && cls.len() <= N && cage.m.len() == cls.len()) {
                rep.add_fail(
                    &Fail { props: "C05".into(), msg: format!("observed state {} is not a well-formed state of the model", key.1) },
                    &Value::Null,
                    0,
                    "walk",
                );
            }
            break;
        };
        let idx = edges[rng.gen_range(0..edges.len())];
        let t = &table.lines[idx];
        crate::progress(idx);
        let out = step_map(&mut cage, t, &geo, &mut leaked, &mut viol_seen);
        rep.walk_steps += 1;
        let bad = !out.fails.is_empty();
        fatal = out.fatal;
        finish(t, idx, out.fails, out.drift, "step of a random walk (after a long history)", rep);
        if bad {
            break;
        }
    }
    let mut fails = vec![];
    if fatal {
        std::mem::forget(cage);
    } else {
        drop(cage);
        final_check(&leaked, &mut viol_seen, &mut fails);
    }
    for f in &fails {
        rep.add_fail(f, &Value::Null, 0, "end of a random walk");
    }
    rep.walks += 1;
}

fn walk_set<const N: usize>(table: &Table, env: &Env, rng: &mut StdRng, steps: usize, rep: &mut Report) {
    ledger::reset();
    let geo = env.geo_set.get(&N).cloned().flatten();
    let mut cage = Cage::new(Set::<Key, N>::new());
    let mut leaked = HashSet::new();
    let mut viol_seen = 0;
    let mut fatal = false;
    for _ in 0..steps {
        let st: Vec<Value> = cage.m.iter().map(|k| json!([k.class(), k.ver, 0])).collect();
        let key = (N, Value::Array(st).to_string());
        let Some(edges) = table.by_state.get(&key) else {
            // no transition of the enumerated family starts here (e.g. bulk construction only starts from
            // an empty container): fine if the state is well-formed - the walk simply ends; otherwise C05
            let cls: Vec<crate::elem::Cls> = cage.m.iter().map(|k| k.class()).collect();
            let distinct = (0..cls.len()).all(|a| (a + 1..cls.len()).all(|b| cls[a] != cls[b]));
            if !(distinct && cls.len() <= N && cage.m.len() == cls.len()) {
                rep.add_fail(
                    &Fail { props: "C05".into(), msg: format!("observed state {} is not a well-formed state of the model", key.1) },
                    &Value::Null,
                    0,
                    "walk",
                );
            }
            break;
        };
        let idx = edges[rng.gen_range(0..edges.len())];
        let t = &table.lines[idx];
        crate::progress(idx);
        let out = step_set(&mut cage, t, &geo, &mut leaked, &mut viol_seen);
        rep.walk_steps += 1;
        let bad = !out.fails.is_empty();
        fatal = out.fatal;
        finish(t, idx, out.fails, out.drift, "step of a random walk (after a long history)", rep);
        if bad {
            break;
        }
    }
    let mut fails = vec![];
    if fatal {
        std::mem::forget(cage);
    } else {
        drop(cage);
        final_check(&leaked, &mut viol_seen, &mut fails);
    }
    for f in &fails {
        rep.add_fail(f, &Value::Null, 0, "end of a random walk");
    }
    rep.walks += 1;
}

pub fn run_walks(table: &Table, env: &Env, rep: &mut Report, seed: u64, walks: usize, steps: usize) {
    let mut rng = StdRng::seed_from_u64(seed);
    for _ in 0..walks {
        let n = table.caps[rng.gen_range(0..table.caps.len())];
        if env.set_mode {
            with_n!(n, walk_set, table, env, &mut rng, steps, rep);
        } else {
            with_n!(n, walk_map, table, env, &mut rng, steps, rep);
        }
    }
}
