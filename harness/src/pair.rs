//! Replay of the pair graph (PairSpec.tla): equality, lazy set algebra, predicates, `-`.
//! Both operands are built from the emitted layouts (half of the cases through a
//! detour that leaves stale bytes in a spare slot), the operation is executed on the
//! real containers and compared with the model; afterwards both operands must be
//! unchanged.

use crate::cage::Cage;
use crate::common::*;
use crate::elem::{Key, Val};
use crate::exec::{ko, MaybeDebug};
use crate::ledger;
use crate::replay::{Fail, Report};
use micromap::{Map, Set};
use serde_json::{json, Value};

const BTAG: i64 = 50;
const CLONETAG: i64 = 20;

macro_rules! with_nn {
    ($na:expr, $nb:expr, $f:ident, $($a:expr),*) => {
        match ($na, $nb) {
            (0, 0) => $f::<0, 0>($($a),*),
            (0, 2) => $f::<0, 2>($($a),*),
            (2, 0) => $f::<2, 0>($($a),*),
            (1, 1) => $f::<1, 1>($($a),*),
            (1, 2) => $f::<1, 2>($($a),*),
            (2, 1) => $f::<2, 1>($($a),*),
            (2, 2) => $f::<2, 2>($($a),*),
            (2, 3) => $f::<2, 3>($($a),*),
            (3, 2) => $f::<3, 2>($($a),*),
            (3, 3) => $f::<3, 3>($($a),*),
            (2, 4) => $f::<2, 4>($($a),*),
            (4, 2) => $f::<4, 2>($($a),*),
            (3, 4) => $f::<3, 4>($($a),*),
            (4, 3) => $f::<4, 3>($($a),*),
            (4, 4) => $f::<4, 4>($($a),*),
            other => panic!("capacity pair {other:?} is not instantiated in the harness"),
        }
    };
}

fn build_set<const N: usize>(lay: &Value, detour: bool) -> Box<Cage<Set<Key, N>>> {
    let mut cage = Cage::new(Set::<Key, N>::new());
    let a = lay.as_array().unwrap();
    for e in a {
        cage.m.insert(Key::new(e[0].as_u64().unwrap() as crate::elem::Cls, e[1].as_u64().unwrap() as u8));
    }
    if detour && a.len() < N {
        // a history: one more element came and went (the last slot: no reordering)
        cage.m.insert(Key::new(200, 3));
        cage.m.remove(&class_probe(200));
    }
    cage
}
fn build_map<const N: usize>(lay: &Value, detour: bool) -> Box<Cage<Map<Key, Val, N>>> {
    let mut cage = Cage::new(Map::<Key, Val, N>::new());
    let a = lay.as_array().unwrap();
    for e in a {
        cage.m.insert(Key::new(e[0].as_u64().unwrap() as crate::elem::Cls, e[1].as_u64().unwrap() as u8), Val::new(e[2].as_u64().unwrap() as u8));
    }
    if detour && a.len() < N {
        cage.m.insert(Key::new(200, 3), Val::new(9));
        cage.m.remove(&class_probe(200));
    }
    cage
}

fn multiset(v: &[Value]) -> Vec<String> {
    let mut s: Vec<String> = v.iter().map(|x| x.to_string()).collect();
    s.sort();
    s
}

/// n items with next() (size_hint before every poll), then the rest through a clone,
/// through Debug and through fold, which must all agree.
fn alg_episode<'a, I>(ctx: &mut Ctx, mut it: I, n: usize, left_only: bool) -> Value
where
    I: Iterator<Item = &'a Key> + Clone + std::fmt::Debug,
{
    let mut hints = vec![];
    let mut yields: Vec<Value> = vec![];
    let mut addrs: Vec<usize> = vec![];
    let mut ran_dry = false;
    for _ in 0..n {
        match call(ctx, || it.size_hint()) {
            Some(h) => hints.push(h),
            None => break,
        }
        match call(ctx, || it.next()) {
            Some(Some(k)) => {
                k.check("set algebra item");
                yields.push(ctx.jk(k));
                addrs.push(k as *const Key as usize);
            }
            _ => {
                ran_dry = true; // fewer items than asked for: the hint just taken was the last one
                break;
            }
        }
    }
    if !ran_dry {
        if let Some(h) = call(ctx, || it.size_hint()) {
            hints.push(h);
        }
    }
    let via_clone: Vec<Value> = {
        let mut c = it.clone();
        let mut v = vec![];
        while let Some(Some(k)) = call(ctx, || c.next()) {
            v.push(ctx.jk(k));
            addrs.push(k as *const Key as usize);
        }
        // None forever after the end
        for _ in 0..2 {
            if let Some(Some(_)) = call(ctx, || c.next()) {
                ctx.note("C08", "a set-algebra iterator yielded an item after returning None".to_string());
            }
        }
        v
    };
    // Iterator's provided methods on a clone must agree with stepping (count / last / nth)
    {
        let cnt = call(ctx, || it.clone().count());
        if cnt != Some(via_clone.len()) {
            ctx.note("C08", format!("count() = {cnt:?} but stepping yields {} items", via_clone.len()));
        }
        let last = call(ctx, || it.clone().last()).flatten().map(|k| ctx.jk(k));
        if last.as_ref() != via_clone.last() {
            ctx.note("C08", format!("last() = {last:?} but stepping ends with {:?}", via_clone.last()));
        }
        for j in [0usize, 1, via_clone.len()] {
            let got = call(ctx, || {
                let mut c = it.clone();
                let x = c.nth(j);
                (x, c.next())
            });
            if let Some((x, after)) = got {
                let (x, after) = (x.map(|k| ctx.jk(k)), after.map(|k| ctx.jk(k)));
                if x.as_ref() != via_clone.get(j) || after.as_ref() != via_clone.get(j + 1) {
                    ctx.note("C08", format!("nth({j}) = {x:?} then next() = {after:?}, but stepping yields {via_clone:?}"));
                }
            }
        }
    }
    // ... and so must the other provided methods an adaptor may override
    {
        let jk = |k: &Key| json!([ctx.tags.ktag(k.serial), k.class(), k.ver]);
        let seq_of = |what: &str, got: Option<Vec<Value>>, notes: &mut Vec<String>| {
            if let Some(g) = got {
                if g != via_clone {
                    notes.push(format!("{what} hands out {g:?} but stepping yields {via_clone:?}"));
                }
            }
        };
        let mut notes: Vec<String> = vec![];
        // (the same bookkeeping as `call`: allocations inside a non-panicking call count, a panic is recorded)
        let flags = std::cell::Cell::new((false, false, 0u64));
        let guarded = |f: &mut dyn FnMut() -> Vec<Value>| -> Option<Vec<Value>> {
            ledger::arm();
            let r = std::panic::catch_unwind(std::panic::AssertUnwindSafe(f));
            let na = ledger::disarm();
            let (p, i, a) = flags.get();
            match r {
                Ok(v) => {
                    flags.set((p, i, a + na));
                    Some(v)
                }
                Err(pl) => {
                    flags.set((true, i || pl.is::<ledger::Injected>(), a));
                    drop(pl);
                    None
                }
            }
        };
        let c = it.clone();
        seq_of(
            "for_each()",
            guarded(&mut || {
                let mut out = vec![];
                c.clone().for_each(|k| {
                    let _s = ledger::Suspend::new();
                    out.push(jk(k));
                });
                out
            }),
            &mut notes,
        );
        seq_of(
            "collect()",
            guarded(&mut || {
                let v: crate::exec::Sink<&Key> = c.clone().collect();
                let _s = ledger::Suspend::new();
                v.0.iter().map(|k| jk(k)).collect()
            }),
            &mut notes,
        );
        seq_of(
            "reduce()",
            guarded(&mut || {
                let mut out = vec![];
                let last = c.clone().reduce(|a, b| {
                    let _s = ledger::Suspend::new();
                    out.push(jk(a));
                    b
                });
                let _s = ledger::Suspend::new();
                if let Some(k) = last {
                    out.push(jk(k));
                }
                out
            }),
            &mut notes,
        );
        let less = |_: &&Key, _: &&Key| std::cmp::Ordering::Less;
        if let Some(g) = guarded(&mut || {
            let r = c.clone().min_by(less);
            let _s = ledger::Suspend::new();
            r.map(|k| jk(k)).into_iter().collect()
        }) {
            if g.first() != via_clone.first() {
                notes.push(format!("min_by(always Less) = {g:?} but the first item stepping yields is {:?}", via_clone.first()));
            }
        }
        if let Some(g) = guarded(&mut || {
            let r = c.clone().max_by(less);
            let _s = ledger::Suspend::new();
            r.map(|k| jk(k)).into_iter().collect()
        }) {
            if g.first() != via_clone.last() {
                notes.push(format!("max_by(always Less) = {g:?} but the last item stepping yields is {:?}", via_clone.last()));
            }
        }
        for j in [0usize, 1, via_clone.len()] {
            // short-circuiting consumers answering at index j: the answer, and the item that comes next
            for what in ["find_map", "any", "all", "position", "find"] {
                let got = guarded(&mut || {
                    let mut cc = c.clone();
                    let mut idx = 0usize;
                    let mut hit = || {
                        let h = idx == j;
                        idx += 1;
                        h
                    };
                    let found = match what {
                        "find_map" => cc.find_map(|k| if hit() { Some(k) } else { None }).is_some(),
                        "any" => cc.any(|_| hit()),
                        "all" => !cc.all(|_| !hit()),
                        "position" => cc.position(|_| hit()).is_some(),
                        _ => cc.find(|_| hit()).is_some(),
                    };
                    let nx = cc.next();
                    let _s = ledger::Suspend::new();
                    vec![json!(found), nx.map(|k| jk(k)).unwrap_or(Value::Null)]
                });
                if let Some(g) = got {
                    let want_found = j < via_clone.len();
                    let want_next = via_clone.get(j + 1).cloned().unwrap_or(Value::Null);
                    if g[0] != json!(want_found) || g[1] != want_next {
                        notes.push(format!("{what}() answering at index {j}: found = {}, then next() = {}, but stepping yields {via_clone:?}", g[0], g[1]));
                    }
                }
            }
        }
        let (p, i, a) = flags.get();
        for m in notes {
            ctx.note("C08", m);
        }
        ctx.panicked |= p;
        ctx.injected |= i;
        if a > 0 {
            ctx.note("C06", format!("{a} allocator call(s) inside provided methods of a set-algebra iterator"));
        }
    }
    if let Some(sdbg) = it.debug_string(ctx) {
        match toks_to_items(ctx, &parse_debug(&sdbg), "key") {
            Some(v) if v == via_clone => {}
            other => ctx.note("C19", format!("Debug of the set-algebra iterator lists {other:?} but it then yields {via_clone:?}")),
        }
    }
    let via_fold: Vec<Value> = {
        let jk = |k: &Key| json!([ctx.tags.ktag(k.serial), k.class(), k.ver]);
        let mut out = vec![];
        ledger::arm();
        let r = std::panic::catch_unwind(std::panic::AssertUnwindSafe(|| {
            it.fold((), |(), k| {
                let _s = ledger::Suspend::new();
                out.push(jk(k));
            })
        }));
        let na = ledger::disarm();
        if r.is_err() {
            ctx.panicked = true;
        } else if na > 0 {
            ctx.note("C06", format!("{na} allocator call(s) inside fold of a set-algebra iterator"));
        }
        out
    };
    if via_fold != via_clone {
        ctx.note("C08", format!("fold gives {via_fold:?} but stepping with next gives {via_clone:?}"));
    }
    // size_hint must bracket what is still to come at every stage
    let total = yields.len() + via_clone.len();
    for (j, h) in hints.iter().enumerate() {
        let remaining = total.saturating_sub(j);
        if h.0 > remaining || h.1.map(|u| u < remaining).unwrap_or(false) {
            ctx.note("C08", format!("size_hint {h:?} after {j} items does not bracket the {remaining} items still yielded"));
        }
    }
    // intersection / difference yield references to the LEFT operand's own elements
    for a in addrs {
        let in_a = a >= ctx.span.0 && a + std::mem::size_of::<Key>() <= ctx.span.1;
        let in_b = a >= ctx.span_b.0 && a + std::mem::size_of::<Key>() <= ctx.span_b.1;
        if left_only && !in_a {
            ctx.note("C08,C06", format!("item at {a:#x} is not an element of the left operand"));
        } else if !in_a && !in_b {
            ctx.note("C06", format!("item at {a:#x} lies in neither operand"));
        }
    }
    let hj: Vec<Value> = hints.iter().map(|h| json!([h.0, h.1])).collect();
    json!({"yield": yields, "rest": via_clone, "hints": hj})
}

fn judge_alg(obs: &Value, exp: &Value, fails: &mut Vec<Fail>, drift: &mut bool) {
    let all = |v: &Value| {
        let mut x = v["yield"].as_array().cloned().unwrap_or_default();
        x.extend(v["rest"].as_array().cloned().unwrap_or_default());
        x
    };
    let (o, e) = (all(obs), all(exp));
    // which operand's object represents a common element of a union is not fixed by the property
    if multiset(&o) != multiset(&e) {
        let cls = |v: &[Value]| {
            let mut c: Vec<i64> = v.iter().map(|x| x[1].as_i64().unwrap_or(-1)).collect();
            c.sort();
            c
        };
        if cls(&o) != cls(&e) {
            fails.push(Fail { props: "C08".into(), msg: format!("yields {o:?}, the model says {e:?}") });
        } else {
            *drift = true;
        }
    } else if obs != exp {
        *drift = true;
    }
    if obs["yield"].as_array().map(|x| x.len()) != exp["yield"].as_array().map(|x| x.len()) {
        fails.push(Fail { props: "C08".into(), msg: format!("took {} items, the model says {} are available", obs["yield"], exp["yield"]) });
    }
}

pub fn pair_set<const NA: usize, const NB: usize>(t: &Value, line: usize, rep: &mut Report) {
    ledger::reset();
    let detour = line % 2 == 1;
    let ca = build_set::<NA>(&t["a"], detour);
    let cb = build_set::<NB>(&t["b"], detour);
    let mut ctx = Ctx::new(true);
    ctx.span = ca.span();
    ctx.span_b = cb.span();
    let pre_a: Vec<u32> = ca.m.iter().map(|k| k.serial).collect();
    let pre_b: Vec<u32> = cb.m.iter().map(|k| k.serial).collect();
    for (i, s) in pre_a.iter().enumerate() {
        ctx.tags.bind_k(i as i64 + 1, *s);
    }
    for (i, s) in pre_b.iter().enumerate() {
        ctx.tags.bind_k(BTAG + i as i64 + 1, *s);
    }
    ledger::mark();
    let op = &t["o"];
    let exp = &t["r"];
    let name = op["name"].as_str().unwrap();
    let mut fails: Vec<Fail> = vec![];
    let mut drift = false;
    let (a, b) = (&ca.m, &cb.m);
    match name {
        "eq" => {
            let obs = json!({
                "ab": call(&mut ctx, || a == b), "ba": call(&mut ctx, || b == a),
                "aa": call(&mut ctx, || a == a), "bb": call(&mut ctx, || b == b),
                "nab": call(&mut ctx, || a != b), "nba": call(&mut ctx, || b != a)});
            if &obs != exp {
                fails.push(Fail { props: "C14".into(), msg: format!("equality: observed {obs}, the model says {exp}") });
            }
        }
        "pred" => {
            let p = op["p"].as_str().unwrap();
            let r = match p {
                "is_subset" => call(&mut ctx, || a.is_subset(b)),
                "is_superset" => call(&mut ctx, || a.is_superset(b)),
                _ => call(&mut ctx, || a.is_disjoint(b)),
            };
            if json!({ "b": r }) != *exp {
                fails.push(Fail { props: "C08".into(), msg: format!("{p}: observed {r:?}, the model says {exp}") });
            }
        }
        "algebra" => {
            let kind = op["kind"].as_str().unwrap();
            let n = op["n"].as_u64().unwrap() as usize;
            let obs = match kind {
                "union" => alg_episode(&mut ctx, a.union(b), n, false),
                "intersection" => alg_episode(&mut ctx, a.intersection(b), n, true),
                "difference" => alg_episode(&mut ctx, a.difference(b), n, true),
                "symmetric_difference" => alg_episode(&mut ctx, a.symmetric_difference(b), n, false),
                _ => {
                    // difference_ref works on sets of references
                    let ra: Set<&Key, NA> = a.iter().collect();
                    let rb: Set<&Key, NB> = b.iter().collect();
                    let r = alg_episode_ref(&mut ctx, &ra, &rb, n);
                    r
                }
            };
            judge_alg(&obs, exp, &mut fails, &mut drift);
            if obs["hints"] != exp["hints"] {
                drift = true;
            }
            if drift && rep.drift_examples.len() < 3 {
                rep.drift_examples.push(format!("{kind}: observed {obs} model {exp}"));
            }
        }
        "sub" => {
            match call(&mut ctx, || a - b) {
                None => fails.push(Fail { props: "C08".into(), msg: "`-` panicked".into() }),
                Some(d) => {
                    let clones = ledger::with(|l| l.clones.clone());
                    for (src, new) in &clones {
                        let st = ctx.tags.ktag(*src);
                        ctx.tags.bind_k(CLONETAG + st, *new);
                    }
                    let ents: Vec<Value> = d.iter().map(|k| ctx.jk(k)).collect();
                    let eents = exp["ents"].as_array().cloned().unwrap_or_default();
                    if multiset(&ents) != multiset(&eents) {
                        fails.push(Fail { props: "C08".into(), msg: format!("a - b holds {ents:?}, the model says {eents:?}") });
                    } else if ents != eents {
                        drift = true;
                    }
                    if d.capacity() != NA {
                        fails.push(Fail { props: "C08".into(), msg: "a - b does not have the left capacity".into() });
                    }
                    let mut srcs: Vec<i64> = clones.iter().map(|(s, _)| ctx.tags.ktag(*s)).collect();
                    srcs.sort();
                    let mut es: Vec<i64> = exp["cloned"].as_array().unwrap().iter().map(|x| x.as_i64().unwrap()).collect();
                    es.sort();
                    if srcs != es {
                        fails.push(Fail { props: "C08,C02".into(), msg: format!("a - b cloned the elements {srcs:?}, the model says {es:?} once each") });
                    }
                    drop(d);
                }
            }
        }
        other => panic!("pair_set: unknown op {other}"),
    }
    if ctx.panicked {
        fails.push(Fail { props: if name == "eq" { "C14".into() } else { "C08".into() }, msg: "the operation panicked".into() });
    }
    // operands unchanged
    let post_a: Vec<u32> = ca.m.iter().map(|k| ko(k).serial).collect();
    let post_b: Vec<u32> = cb.m.iter().map(|k| ko(k).serial).collect();
    if post_a != pre_a || post_b != pre_b || !ca.intact() || !cb.intact() {
        fails.push(Fail { props: if name == "eq" { "C14".into() } else { "C08".into() }, msg: "an operand was modified by a read-only binary operation".into() });
    }
    for n in ctx.notes.drain(..) {
        fails.push(Fail { props: n.props.to_string(), msg: n.msg });
    }
    drop(ctx);
    drop(ca);
    drop(cb);
    finish_pair(t, line, fails, drift, rep);
}

fn alg_episode_ref<const NA: usize, const NB: usize>(ctx: &mut Ctx, ra: &Set<&Key, NA>, rb: &Set<&Key, NB>, n: usize) -> Value {
    // the items are the references stored in the left set: they point at the left operand's keys
    let it = ra.difference_ref(rb);
    alg_episode(ctx, it, n, true)
}

pub fn pair_map<const NA: usize, const NB: usize>(t: &Value, line: usize, rep: &mut Report) {
    ledger::reset();
    let detour = line % 2 == 1;
    let ca = build_map::<NA>(&t["a"], detour);
    let cb = build_map::<NB>(&t["b"], detour);
    let mut ctx = Ctx::new(false);
    let pre_a: Vec<(u32, u32, u8)> = ca.m.iter().map(|(k, v)| (k.serial, v.serial, v.content)).collect();
    let pre_b: Vec<(u32, u32, u8)> = cb.m.iter().map(|(k, v)| (k.serial, v.serial, v.content)).collect();
    ledger::mark();
    let op = &t["o"];
    let exp = &t["r"];
    let mut fails: Vec<Fail> = vec![];
    let (a, b) = (&ca.m, &cb.m);
    match op["name"].as_str().unwrap() {
        "eq" => {
            let obs = json!({
                "ab": call(&mut ctx, || a == b), "ba": call(&mut ctx, || b == a),
                "aa": call(&mut ctx, || a == a), "bb": call(&mut ctx, || b == b),
                "nab": call(&mut ctx, || a != b), "nba": call(&mut ctx, || b != a)});
            if &obs != exp {
                fails.push(Fail { props: "C14".into(), msg: format!("equality: observed {obs}, the model says {exp}") });
            }
        }
        other => panic!("pair_map: unknown op {other}"),
    }
    let post_a: Vec<(u32, u32, u8)> = ca.m.iter().map(|(k, v)| (k.serial, v.serial, v.content)).collect();
    let post_b: Vec<(u32, u32, u8)> = cb.m.iter().map(|(k, v)| (k.serial, v.serial, v.content)).collect();
    if post_a != pre_a || post_b != pre_b || !ca.intact() || !cb.intact() {
        fails.push(Fail { props: "C14".into(), msg: "an operand was modified by the comparison".into() });
    }
    for n in ctx.notes.drain(..) {
        fails.push(Fail { props: n.props.to_string(), msg: n.msg });
    }
    drop(ctx);
    drop(ca);
    drop(cb);
    finish_pair(t, line, fails, false, rep);
}

fn finish_pair(t: &Value, line: usize, mut fails: Vec<Fail>, drift: bool, rep: &mut Report) {
    // everything is gone: nothing may be alive, nothing may have been used illegally
    let alive: Vec<u32> = ledger::with(|l| l.alive.keys().copied().collect());
    for sr in alive {
        fails.push(Fail { props: "C02".into(), msg: format!("object #{sr} was never destroyed although its container is gone") });
    }
    for v in ledger::with(|l| l.viol.clone()) {
        fails.push(Fail { props: "C02".into(), msg: v });
    }
    let label = match t["o"]["name"].as_str().unwrap_or("?") {
        "algebra" => format!("algebra:{}", t["o"]["kind"].as_str().unwrap_or("")),
        "pred" => format!("pred:{}", t["o"]["p"].as_str().unwrap_or("")),
        o => o.to_string(),
    };
    *rep.op_counts.entry(label).or_insert(0) += 1;
    if drift {
        rep.drift += 1;
    }
    for f in &fails {
        rep.add_fail(f, t, line, "pair of canonically built operands");
    }
    rep.edges += 1;
    rep.distinct_states.insert(format!("{}|{}", t["a"], t["b"]));
    if rep.samples.len() < 3 && line % 1499 == 7 {
        rep.samples.push(t.clone());
    }
}

// ------------------------------------------------------------------------------
// C04 / C17 for the binary operations: a panic injected at every callback the code makes
// (key ==, Clone in `-`, the fold closure), or every outcome of every key comparison.
// Only safety is judged: operands untouched and intact, nothing destroyed twice, no dead
// data used, the half-built result of `-` dropped cleanly.

pub struct PairRun {
    pub callbacks: u64,
    pub eq_asked: usize,
    pub fails: Vec<Fail>,
}

fn pair_safety_set<const NA: usize, const NB: usize>(t: &Value, prop: &'static str, panic_at: u64, script: Option<Vec<bool>>) -> PairRun {
    ledger::reset();
    let adversarial = script.is_some();
    let build = |lay: &Value, cage: &mut dyn FnMut(Key)| {
        for e in lay.as_array().unwrap() {
            cage(Key::new(e[0].as_u64().unwrap() as crate::elem::Cls, e[1].as_u64().unwrap() as u8));
        }
    };
    let mut ca = Cage::new(Set::<Key, NA>::new());
    let mut cb = Cage::new(Set::<Key, NB>::new());
    if adversarial {
        ledger::with(|l| {
            l.eq_script = Some(vec![]);
            l.eq_default = false;
            l.in_call = true;
        });
    }
    build(&t["a"], &mut |k| {
        ca.m.insert(k);
    });
    build(&t["b"], &mut |k| {
        cb.m.insert(k);
    });
    ledger::with(|l| {
        l.eq_script = None;
        l.in_call = false;
    });
    let pre_a: Vec<u32> = ca.m.iter().map(|k| k.serial).collect();
    let pre_b: Vec<u32> = cb.m.iter().map(|k| k.serial).collect();
    let mut ctx = Ctx::new(true);
    ledger::mark();
    ledger::with(|l| {
        l.panic_at = panic_at;
        l.eq_script = script;
        l.eq_default = false;
    });
    let op = &t["o"];
    let (a, b) = (&ca.m, &cb.m);
    match op["name"].as_str().unwrap() {
        "eq" => {
            let _ = call(&mut ctx, || a == b);
            let _ = call(&mut ctx, || b == a);
            let _ = call(&mut ctx, || a != b);
        }
        "pred" => {
            let _ = match op["p"].as_str().unwrap() {
                "is_subset" => call(&mut ctx, || a.is_subset(b)),
                "is_superset" => call(&mut ctx, || a.is_superset(b)),
                _ => call(&mut ctx, || a.is_disjoint(b)),
            };
        }
        "algebra" => {
            let n = op["n"].as_u64().unwrap() as usize;
            fn drive<'x, I: Iterator<Item = &'x Key>>(ctx: &mut Ctx, mut it: I, n: usize) {
                for _ in 0..n {
                    match call(ctx, || it.next().map(|k| k.check("set algebra item"))) {
                        Some(Some(_)) => {}
                        _ => break,
                    }
                }
                let _ = call(ctx, || {
                    it.fold(0usize, |c, k| {
                        k.check("set algebra item");
                        let _s = ledger::Suspend::new();
                        ledger::maybe_panic('g', 0, 0);
                        c + 1
                    })
                });
            }
            match op["kind"].as_str().unwrap() {
                "union" => drive(&mut ctx, a.union(b), n),
                "intersection" => drive(&mut ctx, a.intersection(b), n),
                "difference" => drive(&mut ctx, a.difference(b), n),
                "symmetric_difference" => drive(&mut ctx, a.symmetric_difference(b), n),
                _ => {}
            }
        }
        "sub" => {
            if let Some(d) = call(&mut ctx, || a - b) {
                for k in d.iter() {
                    k.check("element of a - b");
                }
                let _ = call(&mut ctx, || drop(d));
            }
        }
        _ => {}
    }
    let (callbacks, eq_asked) = ledger::with(|l| {
        l.panic_at = 0;
        let asked = l.eq_pos;
        l.eq_script = None;
        (l.cb, asked)
    });
    let mut fails = vec![];
    let post_a: Vec<u32> = ca.m.iter().map(|k| ko(k).serial).collect();
    let post_b: Vec<u32> = cb.m.iter().map(|k| ko(k).serial).collect();
    if post_a != pre_a || post_b != pre_b || !ca.intact() || !cb.intact() || ca.m.len() > NA || cb.m.len() > NB {
        fails.push(Fail { props: prop.into(), msg: "an operand of a read-only binary operation was modified or memory outside it was written".into() });
    }
    drop(ctx);
    drop(ca);
    drop(cb);
    for v in ledger::with(|l| l.viol.clone()) {
        fails.push(Fail { props: prop.into(), msg: v });
    }
    PairRun { callbacks, eq_asked, fails }
}

pub fn run_pairs_sweep(path: &str, adversarial: bool, max_leaves: usize, rep: &mut Report) -> (u64, u64, u64) {
    let text = std::fs::read_to_string(path).expect("cannot read table");
    let prop = if adversarial { "C17" } else { "C04" };
    let (mut cases, mut runs, mut maxcb) = (0u64, 0u64, 0u64);
    for (idx, l) in text.lines().enumerate() {
        if l.trim().is_empty() {
            continue;
        }
        let t: Value = serde_json::from_str(l).expect("bad table line");
        let na = t["na"].as_u64().unwrap() as usize;
        let nb = t["nb"].as_u64().unwrap() as usize;
        crate::progress(idx);
        cases += 1;
        if !adversarial {
            let clean = with_nn!(na, nb, pair_safety_set, &t, prop, 0, None);
            runs += 1;
            maxcb = maxcb.max(clean.callbacks);
            for f in &clean.fails {
                rep.add_fail(f, &t, idx, "binary operation, no panic injected");
            }
            for k in 1..=clean.callbacks.min(200) {
                let out = with_nn!(na, nb, pair_safety_set, &t, prop, k, None);
                runs += 1;
                for f in &out.fails {
                    let mut tt = t.clone();
                    tt["inject"] = json!({"callback": k, "site": format!("{}|pair", t["o"]["name"].as_str().unwrap_or(""))});
                    rep.add_fail(f, &tt, idx, &format!("panic injected into user callback {k} of a binary operation"));
                }
            }
        } else {
            let mut stack: Vec<Vec<bool>> = vec![vec![]];
            let mut leaves = 0usize;
            while let Some(script) = stack.pop() {
                if leaves >= max_leaves {
                    break;
                }
                let out = with_nn!(na, nb, pair_safety_set, &t, prop, 0, Some(script.clone()));
                leaves += 1;
                runs += 1;
                maxcb = maxcb.max(out.eq_asked as u64);
                for f in &out.fails {
                    let mut tt = t.clone();
                    tt["eq_script"] = json!(script);
                    rep.add_fail(f, &tt, idx, "scripted (lying) key comparisons in a binary operation");
                }
                let asked = out.eq_asked.min(20);
                for p in (script.len()..asked).rev() {
                    let mut s2 = script.clone();
                    s2.resize(p, false);
                    s2.push(true);
                    stack.push(s2);
                }
            }
        }
        *rep.op_counts.entry(format!("pair:{}", t["o"]["name"].as_str().unwrap_or(""))).or_insert(0) += 1;
        rep.edges += 1;
    }
    (cases, runs, maxcb)
}

pub fn run_pairs(path: &str, set_mode: bool, rep: &mut Report) {
    let text = std::fs::read_to_string(path).expect("cannot read table");
    for (idx, l) in text.lines().enumerate() {
        if l.trim().is_empty() {
            continue;
        }
        let t: Value = serde_json::from_str(l).expect("bad table line");
        let na = t["na"].as_u64().unwrap() as usize;
        let nb = t["nb"].as_u64().unwrap() as usize;
        crate::progress(idx);
        if set_mode {
            with_nn!(na, nb, pair_set, &t, idx, rep);
        } else {
            with_nn!(na, nb, pair_map, &t, idx, rep);
        }
    }
}
