//! Interpreter of model operations on the real `Map<Key, Val, N>` / `Set<Key, N>`.
//! It executes exactly the public calls an op names and reports what it observed
//! (return values as tagged JSON in the same shapes as MapOps.tla produces). It
//! computes no expected values.

use crate::cage::Cage;
use crate::common::*;
use crate::elem::{Class, Cls, Key, Val};
use crate::ledger;
use micromap::{Entry, Map, Set};
use serde_json::{json, Value};
use crate::replay::with_n;
use std::cell::Cell;
use std::collections::HashSet;
use std::fmt::Write as _;

#[derive(Clone, Copy, Debug)]
pub struct KO {
    pub serial: u32,
    pub class: Cls,
    pub ver: u8,
    pub addr: usize,
}
#[derive(Clone, Copy, Debug)]
pub struct VO {
    pub serial: u32,
    pub content: u8,
    pub addr: usize,
}
thread_local! {
    /// serials of the stale entries the serde executor puts into an in-place deserialization target
    static STALE: std::cell::RefCell<Vec<u32>> = const { std::cell::RefCell::new(Vec::new()) };
}

/// capacity of the second operand of the trace operations eq_other / s_eq_other
pub const OTHER_CAP: usize = 310;

pub fn ko(k: &Key) -> KO {
    k.check("returned key");
    KO { serial: k.serial, class: k.class(), ver: k.ver, addr: k as *const Key as usize }
}
pub fn vo(v: &Val) -> VO {
    v.check("returned value");
    VO { serial: v.serial, content: v.content, addr: v as *const Val as usize }
}

impl Ctx {
    pub fn jko(&self, k: &KO) -> Value {
        json!([self.tags.ktag(k.serial), k.class, k.ver])
    }
    pub fn jvo(&self, v: &VO) -> Value {
        json!([self.tags.vtag(v.serial), v.content])
    }
    pub fn rvo(&self, v: &VO) -> Value {
        json!(["val", self.tags.vtag(v.serial), v.content])
    }
    pub fn rko(&self, k: &KO) -> Value {
        json!(["key", self.tags.ktag(k.serial), k.class, k.ver])
    }
    pub fn reo(&self, k: &KO, v: &VO) -> Value {
        json!(["ent", self.tags.ktag(k.serial), k.class, k.ver, self.tags.vtag(v.serial), v.content])
    }
    pub fn addr_inside(&mut self, what: &str, a: usize, size: usize) {
        let (lo, hi) = self.span;
        if hi != 0 && !(a >= lo && a + size <= hi) {
            self.note("C06", format!("{what}: reference {a:#x} outside the container value [{lo:#x},{hi:#x})"));
        }
    }
    pub fn vo_inside(&mut self, what: &str, v: &VO) {
        self.addr_inside(what, v.addr, std::mem::size_of::<Val>());
    }
    pub fn ko_inside(&mut self, what: &str, k: &KO) {
        self.addr_inside(what, k.addr, std::mem::size_of::<Key>());
    }
}

fn s<'a>(op: &'a Value, f: &str) -> &'a str {
    op[f].as_str().unwrap_or("")
}
fn i(op: &Value, f: &str) -> i64 {
    op[f].as_i64().unwrap_or(0)
}
fn takes_v(m: &str) -> bool {
    matches!(m, "or_insert" | "or_insert_with" | "or_insert_with_key" | "and_modify" | "occ_insert" | "vac_insert")
}

/// measured call (see common::call) that keeps `ctx` free for the closure's results
macro_rules! mcall {
    ($ctx:expr, $body:expr) => {{
        let r = call($ctx, || $body);
        r
    }};
}

// ------------------------------------------------------- iterator items --
pub trait Item {
    const SHAPE: &'static str;
    fn json(&self, ctx: &Ctx) -> Value;
    fn write(&mut self, _w: u8) {}
    fn check_inside(&self, _ctx: &mut Ctx) {}
    fn keep(self, ctx: &mut Ctx);
}
impl Item for (&Key, &Val) {
    const SHAPE: &'static str = "ent";
    fn json(&self, ctx: &Ctx) -> Value {
        self.0.check("yielded key");
        self.1.check("yielded value");
        ctx.je(self.0, self.1)
    }
    fn check_inside(&self, ctx: &mut Ctx) {
        ctx.inside("iter item key", self.0);
        ctx.inside("iter item value", self.1);
    }
    fn keep(self, _ctx: &mut Ctx) {}
}
impl Item for (&Key, &mut Val) {
    const SHAPE: &'static str = "ent";
    fn json(&self, ctx: &Ctx) -> Value {
        self.0.check("yielded key");
        self.1.check("yielded value");
        ctx.je(self.0, self.1)
    }
    fn write(&mut self, w: u8) {
        self.1.content = w;
    }
    fn check_inside(&self, ctx: &mut Ctx) {
        ctx.inside("iter_mut item key", self.0);
        ctx.inside("iter_mut item value", &*self.1);
    }
    fn keep(self, _ctx: &mut Ctx) {}
}
impl Item for &Key {
    const SHAPE: &'static str = "key";
    fn json(&self, ctx: &Ctx) -> Value {
        self.check("yielded key");
        ctx.jk(self)
    }
    fn check_inside(&self, ctx: &mut Ctx) {
        ctx.inside("keys item", *self);
    }
    fn keep(self, _ctx: &mut Ctx) {}
}
impl Item for &Val {
    const SHAPE: &'static str = "val";
    fn json(&self, ctx: &Ctx) -> Value {
        self.check("yielded value");
        ctx.jv(self)
    }
    fn check_inside(&self, ctx: &mut Ctx) {
        ctx.inside("values item", *self);
    }
    fn keep(self, _ctx: &mut Ctx) {}
}
impl Item for &mut Val {
    const SHAPE: &'static str = "val";
    fn json(&self, ctx: &Ctx) -> Value {
        self.check("yielded value");
        ctx.jv(self)
    }
    fn write(&mut self, w: u8) {
        self.content = w;
    }
    fn check_inside(&self, ctx: &mut Ctx) {
        ctx.inside("values_mut item", &**self);
    }
    fn keep(self, _ctx: &mut Ctx) {}
}
impl Item for (Key, Val) {
    const SHAPE: &'static str = "ent";
    fn json(&self, ctx: &Ctx) -> Value {
        self.0.check("yielded key");
        self.1.check("yielded value");
        ctx.je(&self.0, &self.1)
    }
    fn keep(self, ctx: &mut Ctx) {
        ctx.hold_k(self.0);
        ctx.hold_v(self.1);
    }
}
impl Item for Key {
    const SHAPE: &'static str = "key";
    fn json(&self, ctx: &Ctx) -> Value {
        self.check("yielded key");
        ctx.jk(self)
    }
    fn keep(self, ctx: &mut Ctx) {
        ctx.hold_k(self);
    }
}
impl Item for Val {
    const SHAPE: &'static str = "val";
    fn json(&self, ctx: &Ctx) -> Value {
        self.check("yielded value");
        ctx.jv(self)
    }
    fn keep(self, ctx: &mut Ctx) {
        ctx.hold_v(self);
    }
}

/// Take `n` items from a cursor, recording exact lengths before every poll; read what it
/// still holds from its Debug rendering; then consume the rest the way `op.fin` says
/// (Iterator's provided methods nth / last / fold, which take the real iterator by value
/// so that an override in the crate is what runs). Returns the iterator if it still exists.
/// `props` = properties a failed self-consistency check is attributed to.
pub fn episode<I>(ctx: &mut Ctx, mut it: I, op: &Value, n: usize, w: i64, props: &'static str, dbg: bool) -> (Value, Option<I>)
where
    I: ExactSizeIterator,
    I::Item: Item,
    I: MaybeDebug,
{
    let mut lens = vec![];
    let mut yields = vec![];
    let mut ended = false;
    for _ in 0..n {
        let l = match call(ctx, || (it.len(), it.size_hint())) {
            Some(x) => x,
            None => break,
        };
        lens.push(json!(l.0));
        if l.1 != (l.0, Some(l.0)) {
            ctx.note(props, format!("size_hint {:?} is not exact (len() = {})", l.1, l.0));
        }
        match call(ctx, || it.next()) {
            Some(Some(mut x)) => {
                yields.push(x.json(ctx));
                x.check_inside(ctx);
                if w != NO_WRITE {
                    x.write(w as u8);
                }
                x.keep(ctx);
            }
            Some(None) => {
                ended = true;
                break;
            }
            None => break,
        }
    }
    if !ended {
        if let Some(l) = call(ctx, || (it.len(), it.size_hint())) {
            lens.push(json!(l.0));
            if l.1 != (l.0, Some(l.0)) {
                ctx.note(props, format!("size_hint {:?} is not exact (len() = {})", l.1, l.0));
            }
            if l.0 == 0 {
                // after the end: None forever
                for _ in 0..3 {
                    if let Some(Some(x)) = call(ctx, || it.next()) {
                        ctx.note(props, "iterator yielded an item after reporting len() = 0".to_string());
                        x.keep(ctx);
                    }
                }
            }
        }
    }
    let mut rem = Value::Null;
    if dbg {
        if let Some(sr) = it.debug_string(ctx) {
            match toks_to_items(ctx, &parse_debug(&sr), <I::Item as Item>::SHAPE) {
                Some(v) => rem = Value::Array(v),
                None => ctx.note("C19", format!("cannot read the entries listed by the iterator's Debug output: {sr}")),
            }
        }
    }
    // ---- the rest, through one of Iterator's provided methods
    let fin = op["fin"].as_str().unwrap_or("none");
    // (2_000_000_000 in the model stands for usize::MAX)
    let j = match op["j"].as_u64().unwrap_or(0) as usize {
        x if x >= 2_000_000_000 => usize::MAX,
        x => x,
    };
    let mut some = "nofin";
    let mut r: Vec<Value> = vec![];
    let mut left: Option<I> = None;
    // how many items the cursor holds before the finishing call, and how many of them that call
    // hands to the caller's closure
    let pre_fin = it.len();
    let handed = std::cell::Cell::new(0usize);
    match fin {
        "nth" => {
            match call(ctx, || it.nth(j)) {
                Some(Some(x)) => {
                    some = "item";
                    r.push(x.json(ctx));
                    x.check_inside(ctx);
                    x.keep(ctx);
                }
                Some(None) => some = "none",
                None => some = "panic",
            }
            left = Some(it);
        }
        "find" => {
            let mut idx = 0usize;
            match call(ctx, || {
                it.find(|_x| {
                    let _s = ledger::Suspend::new();
                    handed.set(handed.get() + 1);
                    ledger::maybe_panic('g', 0, 0);
                    let hit = idx == j;
                    idx += 1;
                    hit
                })
            }) {
                Some(Some(x)) => {
                    some = "item";
                    r.push(x.json(ctx));
                    x.check_inside(ctx);
                    x.keep(ctx);
                }
                Some(None) => some = "none",
                None => some = "panic",
            }
            left = Some(it);
        }
        "find_map" => {
            // find_map(f) with f answering Some at index j: what find(pred) is, through another provided method
            let mut idx = 0usize;
            match call(ctx, || {
                it.find_map(|x| {
                    let _s = ledger::Suspend::new();
                    handed.set(handed.get() + 1);
                    ledger::maybe_panic('g', 0, 0);
                    let hit = idx == j;
                    idx += 1;
                    if hit {
                        Some(x)
                    } else {
                        None
                    }
                })
            }) {
                Some(Some(x)) => {
                    some = "item";
                    r.push(x.json(ctx));
                    x.check_inside(ctx);
                    x.keep(ctx);
                }
                Some(None) => some = "none",
                None => some = "panic",
            }
            left = Some(it);
        }
        "min_by" | "max_by" => {
            // a comparator that always answers Less: min_by keeps the first item, max_by the last;
            // every other item is consumed (a consuming cursor destroys it)
            let cmp = |_: &I::Item, _: &I::Item| {
                let _s = ledger::Suspend::new();
                ledger::maybe_panic('g', 0, 0);
                std::cmp::Ordering::Less
            };
            let got = if fin == "min_by" { call(ctx, move || it.min_by(cmp)) } else { call(ctx, move || it.max_by(cmp)) };
            match got {
                Some(Some(x)) => {
                    some = "item";
                    r.push(x.json(ctx));
                    x.check_inside(ctx);
                    x.keep(ctx);
                }
                Some(None) => some = "none",
                None => some = "panic",
            }
        }
        "for_each" | "reduce" | "collect" => {
            // the remaining provided methods that hand EVERY item to the caller
            let store: std::cell::RefCell<Vec<I::Item>> = std::cell::RefCell::new(Vec::new());
            let ok = match fin {
                "for_each" => call(ctx, || {
                    it.for_each(|x| {
                        let _s = ledger::Suspend::new();
                        store.borrow_mut().push(x);
                        ledger::maybe_panic('g', 0, 0);
                    })
                })
                .is_some(),
                "reduce" => match call(ctx, || {
                    it.reduce(|acc, x| {
                        let _s = ledger::Suspend::new();
                        store.borrow_mut().push(acc);
                        ledger::maybe_panic('g', 0, 0);
                        x
                    })
                }) {
                    Some(lastx) => {
                        if let Some(x) = lastx {
                            store.borrow_mut().push(x);
                        }
                        true
                    }
                    None => false,
                },
                _ => match call(ctx, || it.collect::<Sink<I::Item>>()) {
                    Some(sk) => {
                        store.borrow_mut().extend(sk.0);
                        true
                    }
                    None => false,
                },
            };
            if ok {
                some = "seq";
            } else {
                some = "panic";
            }
            // (after a panic the items already received are still owned here: kept, so that nothing is
            //  destroyed behind the ledger's back)
            for x in store.into_inner() {
                if ok {
                    r.push(x.json(ctx));
                    x.check_inside(ctx);
                }
                x.keep(ctx);
            }
        }
        "any" | "all" | "position" => {
            // short-circuiting consumers: the predicate answers at index j; items handed to it are
            // dropped there (for consuming cursors that destroys them)
            let mut idx = 0usize;
            let mut pred = |_x: I::Item| {
                let _s = ledger::Suspend::new();
                handed.set(handed.get() + 1);
                ledger::maybe_panic('g', 0, 0);
                let hit = idx == j;
                idx += 1;
                hit
            };
            let got: Option<bool> = match fin {
                "any" => call(ctx, || it.any(&mut pred)),
                "all" => call(ctx, || !it.all(|x| !pred(x))),
                _ => call(ctx, || it.position(&mut pred).is_some()),
            };
            some = match got {
                Some(true) => "hit",
                Some(false) => "miss",
                None => "panic",
            };
            left = Some(it);
        }
        "last" => match call(ctx, move || it.last()) {
            Some(Some(x)) => {
                some = "item";
                r.push(x.json(ctx));
                x.check_inside(ctx);
                x.keep(ctx);
            }
            Some(None) => some = "none",
            None => some = "panic",
        },
        "fold" => {
            let got = call(ctx, move || {
                it.fold(Vec::new(), |mut acc: Vec<I::Item>, x| {
                    let _s = ledger::Suspend::new();
                    acc.push(x);
                    // the fold closure is user code: it may panic part-way (the items it already
                    // received are owned by `acc` and destroyed by the unwinding, exactly once)
                    ledger::maybe_panic('g', 0, 0);
                    acc
                })
            });
            match got {
                Some(items) => {
                    some = "seq";
                    for x in items {
                        r.push(x.json(ctx));
                        x.check_inside(ctx);
                        x.keep(ctx);
                    }
                }
                None => some = "panic",
            }
        }
        _ => left = Some(it),
    }
    let mut after = 0usize;
    if let Some(it) = left.as_mut() {
        if let Some(l) = call(ctx, || (it.len(), it.size_hint())) {
            after = l.0;
            if l.1 != (l.0, Some(l.0)) {
                ctx.note(props, format!("size_hint {:?} is not exact (len() = {}) after {fin}", l.1, l.0));
            }
            // every item handed to the closure has left the cursor - also when the closure panicked
            // there ("each entry exactly once": it must not come out a second time)
            // (a panic may also come from the destructor of the part of a pair that a projecting cursor
            //  discards while fetching the next item: then one more item has left than was handed over)
            let gone = pre_fin.saturating_sub(l.0);
            if matches!(fin, "find" | "find_map" | "any" | "all" | "position") && gone != handed.get() && !(some == "panic" && gone == handed.get() + 1) {
                // (after a panic of the closure this is exception safety of the cursor: C04 as well)
                let pr: &'static str = if some != "panic" {
                    props
                } else {
                    match props {
                        "C09" => "C04,C09",
                        "C10" => "C04,C10",
                        _ => "C04,C09,C10",
                    }
                };
                ctx.note(pr, format!("{fin}() handed {} item(s) to its closure (outcome {some}) but the cursor went from {pre_fin} to {} items", handed.get(), l.0));
            }
            if fin != "none" && l.0 == 0 {
                for _ in 0..2 {
                    if let Some(Some(x)) = call(ctx, || it.next()) {
                        ctx.note(props, format!("iterator yielded an item after {fin}() exhausted it"));
                        x.keep(ctx);
                    }
                }
            }
        }
    }
    (json!({"yield": yields, "lens": lens, "rem": rem, "fin": {"some": some, "r": r, "after": after}}), left)
}

/// `collect()` target: a FromIterator sink that pulls with `next` and suspends the allocation
/// counter only while it stores an item (the iterator's own work stays measured).
pub struct Sink<T>(pub Vec<T>);
impl<T> FromIterator<T> for Sink<T> {
    fn from_iter<I: IntoIterator<Item = T>>(iter: I) -> Self {
        let mut v = {
            let _s = ledger::Suspend::new();
            Vec::with_capacity(64)
        };
        for x in iter {
            let _s = ledger::Suspend::new();
            v.push(x);
            ledger::maybe_panic('g', 0, 0);
        }
        Sink(v)
    }
}

/// Debug rendering of a cursor into a non-allocating sink (measured: C06, C19).
pub trait MaybeDebug {
    fn debug_string(&self, ctx: &mut Ctx) -> Option<String>;
}
impl<T: std::fmt::Debug> MaybeDebug for T {
    fn debug_string(&self, ctx: &mut Ctx) -> Option<String> {
        let mut sink = StackSink::new();
        let r = call(ctx, || write!(sink, "{:?}", self));
        match r {
            Some(Ok(())) => Some(sink.as_str().to_string()),
            _ => None,
        }
    }
}

// ------------------------------------------------------------------ Map --
pub fn observe_map<const N: usize>(m: &Map<Key, Val, N>) -> Vec<(KO, VO)> {
    m.iter().map(|(k, v)| (ko(k), vo(v))).collect()
}

macro_rules! by_form {
    ($ctx:expr, $op:expr, |$q:ident| $body:expr) => {{
        let c = i($op, "c") as Cls;
        if i($op, "form") == 0 {
            let pk = Key::new(c, 7);
            let r = {
                let $q: &Key = &pk;
                $body
            };
            $ctx.extras.push(Owned::K(pk));
            r
        } else {
            let p = class_probe(c);
            let $q: &Class = &p;
            $body
        }
    }};
}

pub fn exec_map<const N: usize>(cage: &mut Cage<Map<Key, Val, N>>, op: &Value, ctx: &mut Ctx) -> Value {
    ctx.span = cage.span();
    let name = s(op, "name");
    let w = i(op, "w");
    match name {
        "insert" | "insert_unchecked" => {
            let k = ctx.mk_key(&op["k"]);
            let v = ctx.mk_val(&op["v"]);
            let m = &mut cage.m;
            let r = if name == "insert" {
                call(ctx, || m.insert(k, v))
            } else {
                call(ctx, || unsafe { m.insert_unchecked(k, v) })
            };
            match r {
                None => json!(["panic"]),
                Some(None) => json!(["none"]),
                Some(Some(old)) => {
                    let j = ctx.rvo(&vo(&old));
                    ctx.hold_v(old);
                    j
                }
            }
        }
        "insert_key_value" => {
            let k = ctx.mk_key(&op["k"]);
            let v = ctx.mk_val(&op["v"]);
            let m = &mut cage.m;
            match call(ctx, || m.insert_key_value(k, v)) {
                None => json!(["panic"]),
                Some(None) => json!(["none"]),
                Some(Some((ok, ov))) => {
                    let j = ctx.reo(&ko(&ok), &vo(&ov));
                    ctx.hold_k(ok);
                    ctx.hold_v(ov);
                    j
                }
            }
        }
        "checked_insert" => {
            let k = ctx.mk_key(&op["k"]);
            let v = ctx.mk_val(&op["v"]);
            let m = &mut cage.m;
            match call(ctx, || m.checked_insert(k, v)) {
                None => json!(["panic"]),
                Some(None) => json!(["none"]),
                Some(Some(None)) => json!(["some_none"]),
                Some(Some(Some(old))) => {
                    let o = vo(&old);
                    ctx.hold_v(old);
                    json!(["some_val", ctx.tags.vtag(o.serial), o.content])
                }
            }
        }
        "get" => {
            let m = &cage.m;
            let r = by_form!(ctx, op, |q| call(ctx, || m.get(q).map(vo)));
            match r {
                None => json!(["panic"]),
                Some(None) => json!(["none"]),
                Some(Some(o)) => {
                    ctx.vo_inside("get", &o);
                    ctx.rvo(&o)
                }
            }
        }
        "get_key_value" => {
            let m = &cage.m;
            let r = by_form!(ctx, op, |q| call(ctx, || m.get_key_value(q).map(|(k, v)| (ko(k), vo(v)))));
            match r {
                None => json!(["panic"]),
                Some(None) => json!(["none"]),
                Some(Some((k, v))) => {
                    ctx.ko_inside("get_key_value", &k);
                    ctx.vo_inside("get_key_value", &v);
                    ctx.reo(&k, &v)
                }
            }
        }
        "contains_key" => {
            let m = &cage.m;
            let r = by_form!(ctx, op, |q| call(ctx, || m.contains_key(q)));
            match r {
                None => json!(["panic"]),
                Some(b) => json!(["b", b]),
            }
        }
        "get_mut" => {
            let m = &mut cage.m;
            let r = by_form!(
                ctx,
                op,
                |q| call(ctx, || m.get_mut(q).map(|v| {
                    let o = vo(v);
                    if w != NO_WRITE {
                        v.content = w as u8;
                    }
                    o
                }))
            );
            match r {
                None => json!(["panic"]),
                Some(None) => json!(["none"]),
                Some(Some(o)) => {
                    ctx.vo_inside("get_mut", &o);
                    ctx.rvo(&o)
                }
            }
        }
        "index" => {
            let m = &cage.m;
            let r = by_form!(ctx, op, |q| call(ctx, || vo(&m[q])));
            match r {
                None => json!(["panic"]),
                Some(o) => {
                    ctx.vo_inside("index", &o);
                    ctx.rvo(&o)
                }
            }
        }
        "index_mut" => {
            let m = &mut cage.m;
            let r = by_form!(
                ctx,
                op,
                |q| call(ctx, || {
                    let v = &mut m[q];
                    let o = vo(v);
                    if w != NO_WRITE {
                        v.content = w as u8;
                    }
                    o
                })
            );
            match r {
                None => json!(["panic"]),
                Some(o) => {
                    ctx.vo_inside("index_mut", &o);
                    ctx.rvo(&o)
                }
            }
        }
        "remove" => {
            let m = &mut cage.m;
            let r = by_form!(ctx, op, |q| call(ctx, || m.remove(q)));
            match r {
                None => json!(["panic"]),
                Some(None) => json!(["none"]),
                Some(Some(v)) => {
                    let j = ctx.rvo(&vo(&v));
                    ctx.hold_v(v);
                    j
                }
            }
        }
        "remove_entry" => {
            let m = &mut cage.m;
            let r = by_form!(ctx, op, |q| call(ctx, || m.remove_entry(q)));
            match r {
                None => json!(["panic"]),
                Some(None) => json!(["none"]),
                Some(Some((k, v))) => {
                    let j = ctx.reo(&ko(&k), &vo(&v));
                    ctx.hold_k(k);
                    ctx.hold_v(v);
                    j
                }
            }
        }
        "retain" => {
            let keep: Vec<Cls> = op["keep"].as_array().unwrap().iter().map(|x| x.as_u64().unwrap() as Cls).collect();
            // windowed histories: `reject` lists the watched keys to drop; every key in neither list is kept
            let reject: Option<Vec<Cls>> = op["reject"].as_array().map(|a| a.iter().map(|x| x.as_u64().unwrap() as Cls).collect());
            let m = &mut cage.m;
            let span = ctx.span;
            let outside = Cell::new(0usize);
            let r = call(ctx, || {
                m.retain(|k, v| {
                    let _s = ledger::Suspend::new();
                    k.check("retain predicate key");
                    v.check("retain predicate value");
                    // C06: the references handed to the predicate point inside the container
                    let (ka, va) = (k as *const Key as usize, v as *const Val as usize);
                    if ka < span.0 || ka + std::mem::size_of::<Key>() > span.1 || va < span.0 || va + std::mem::size_of::<Val>() > span.1 {
                        outside.set(outside.get() + 1);
                    }
                    ledger::maybe_panic('p', k.serial, v.serial);
                    if w != NO_WRITE {
                        v.content = w as u8;
                    }
                    keep.contains(&k.class()) || reject.as_ref().map(|r| !r.contains(&k.class())).unwrap_or(false)
                })
            });
            if outside.get() > 0 {
                ctx.note("C06", format!("retain handed its predicate {} reference(s) that point outside the container value", outside.get()));
            }
            match r {
                None => json!(["panic"]),
                Some(()) => json!(["unit"]),
            }
        }
        "clear" => {
            let m = &mut cage.m;
            match call(ctx, || m.clear()) {
                None => json!(["panic"]),
                Some(()) => json!(["unit"]),
            }
        }
        "drop" => {
            let m = std::mem::take(&mut cage.m);
            match call(ctx, || drop(m)) {
                None => json!(["panic"]),
                Some(()) => json!(["unit"]),
            }
        }
        "b_eq" => {
            // == / != against a second map holding the classes op.b with value contents op.bv
            // (objects 50 + i); the same episode as the micro model (MapMicro.tla, "binary" family)
            let mut b = Map::<Key, Val, N>::new();
            {
                // (under a comparison script the operand is built like the state: every key appended)
                let saved = ledger::with(|l| (l.eq_script.take(), l.in_call, l.panic_at));
                ledger::with(|l| {
                    l.eq_script = Some(vec![]);
                    l.eq_default = false;
                    l.in_call = true;
                    l.panic_at = 0;
                });
                let (cb0, pos0) = ledger::with(|l| (l.cb, l.eq_pos));
                for (idx, c) in op["b"].as_array().unwrap().iter().enumerate() {
                    let k = Key::new(c.as_u64().unwrap() as Cls, 1);
                    let v = Val::new(op["bv"][idx].as_u64().unwrap_or(0) as u8);
                    ctx.tags.bind_k(50 + idx as i64 + 1, k.serial);
                    ctx.tags.bind_v(50 + idx as i64 + 1, v.serial);
                    ctx.stash_serials.push(k.serial);
                    ctx.stash_serials.push(v.serial);
                    b.insert(k, v);
                }
                ledger::with(|l| {
                    l.eq_script = saved.0;
                    l.in_call = saved.1;
                    l.panic_at = saved.2;
                    l.cb = cb0;
                    l.eq_pos = pos0;
                    l.eq_overrun = 0;
                    let keep = l.cb_log.len().min(cb0 as usize);
                    l.cb_log.truncate(keep);
                });
            }
            let b = Box::new(b);
            let a = &cage.m;
            let bb: &Map<Key, Val, N> = &b;
            let r = if op["ne"].as_bool().unwrap_or(false) { call(ctx, || a != bb) } else { call(ctx, || a == bb) };
            ctx.stash.push(b);
            json!(["b", r])
        }
        "eq_other" => {
            // (traces) the container against another one of a different capacity holding op.b
            let mut b: Box<Map<Key, Val, OTHER_CAP>> = Box::new(Map::new());
            for e in op["b"].as_array().unwrap() {
                let (k, v) = (Key::new(e[0].as_u64().unwrap() as Cls, 1), Val::new(e[1].as_u64().unwrap() as u8));
                ctx.stash_serials.push(k.serial);
                ctx.stash_serials.push(v.serial);
                b.insert(k, v);
            }
            let a = &cage.m;
            let bb: &Map<Key, Val, OTHER_CAP> = &b;
            let r = (call(ctx, || a == bb), call(ctx, || a != bb), call(ctx, || bb == a));
            ctx.stash.push(b);
            match r {
                (Some(eq), Some(ne), Some(rev)) => json!(["eqs", eq, ne, rev]),
                _ => json!(["panic"]),
            }
        }
        "eq_clone" => {
            // (traces) a container compares equal to its own clone, whatever its size and slot order
            let m = &cage.m;
            let r = call(ctx, || {
                let c = m.clone();
                let e = c == *m && *m == c && !(c != *m);
                drop(c);
                e
            });
            // the clone's objects came and went inside the call: they are not part of the observed step
            let made: Vec<u32> = ledger::with(|l| l.clones.iter().map(|x| x.1).collect());
            ledger::with(|l| l.drops.retain(|(_, sr)| !made.contains(sr)));
            match r {
                None => json!(["panic"]),
                Some(b) => json!(["b", b]),
            }
        }
        "default" | "with_capacity" => {
            let c = i(op, "c") as usize;
            #[allow(deprecated)]
            let made = if name == "default" { call(ctx, Map::<Key, Val, N>::default) } else { call(ctx, || Map::<Key, Val, N>::with_capacity(c)) };
            match made {
                None => json!(["panic"]),
                Some(nm) => {
                    if !nm.is_empty() || nm.capacity() != N {
                        ctx.note("C03,C05", "a newly constructed container is not empty or has the wrong capacity".into());
                    }
                    let old = std::mem::replace(&mut cage.m, nm);
                    let _ = call(ctx, || drop(old));
                    json!(["unit"])
                }
            }
        }
        "iter_defaults" => {
            // the Default iterators yield nothing and report length 0
            let mut lens: Vec<usize> = vec![];
            macro_rules! dflt {
                ($t:ty) => {{
                    let mut it: $t = Default::default();
                    let l = it.len();
                    let extra = if it.next().is_some() { 1 } else { 0 };
                    lens.push(l + extra);
                }};
            }
            dflt!(micromap::Iter<'_, Key, Val>);
            dflt!(micromap::IterMut<'_, Key, Val>);
            dflt!(micromap::Keys<'_, Key, Val>);
            dflt!(micromap::Values<'_, Key, Val>);
            dflt!(micromap::ValuesMut<'_, Key, Val>);
            dflt!(micromap::IntoIter<Key, Val, N>);
            dflt!(micromap::IntoKeys<Key, Val, N>);
            dflt!(micromap::IntoValues<Key, Val, N>);
            json!(["lens", lens])
        }
        "drain" => {
            let n = i(op, "n") as usize;
            let m = &mut cage.m;
            let mut d = match call(ctx, || m.drain()) {
                None => return json!(["panic"]),
                Some(d) => d,
            };
            let (ret, d) = episode(ctx, d, op, n, NO_WRITE, "C10", true);
            end_cursor(ctx, d, s(op, "end"), n);
            ret
        }
        "cursor" => exec_cursor(cage, op, ctx),
        "entry" => exec_entry(cage, op, ctx),
        "disjoint" => {
            let ks: Vec<Cls> = op["ks"].as_array().unwrap().iter().map(|x| x.as_u64().unwrap() as Cls).collect();
            let unchecked = op["unchecked"].as_bool().unwrap_or(false);
            match ks.len() {
                0 => disjoint::<N, 0>(cage, &ks, w, unchecked, ctx),
                1 => disjoint::<N, 1>(cage, &ks, w, unchecked, ctx),
                2 => disjoint::<N, 2>(cage, &ks, w, unchecked, ctx),
                3 => disjoint::<N, 3>(cage, &ks, w, unchecked, ctx),
                4 => disjoint::<N, 4>(cage, &ks, w, unchecked, ctx),
                5 => disjoint::<N, 5>(cage, &ks, w, unchecked, ctx),
                200 => disjoint::<N, 200>(cage, &ks, w, unchecked, ctx),
                _ => panic!("unsupported J"),
            }
        }
        "from_iter" | "from_array" => {
            let items: Vec<(Key, Val)> =
                op["items"].as_array().unwrap().iter().map(|it| (ctx.mk_key(&it["k"]), ctx.mk_val(&it["v"]))).collect();
            let nitems = items.len();
            let pulled = Cell::new(0usize);
            let done = Cell::new(0usize);
            let built = if name == "from_iter" {
                let src = Source { items: items.into_iter(), pulled: &pulled, done: &done, hint: hint_of(op) };
                call(ctx, || src.collect::<Map<Key, Val, N>>())
            } else {
                assert_eq!(nitems, N);
                let mut it = items.into_iter();
                let arr: [(Key, Val); N] = std::array::from_fn(|_| it.next().unwrap());
                pulled.set(N);
                call(ctx, || Map::<Key, Val, N>::from(arr))
            };
            if done.get() > 1 {
                ctx.note("C16", "the source iterator was polled again after it had returned None".into());
            }
            match built {
                None => {
                    // the old (empty) container of the cage stays
                    json!({"r": "panic", "pulled": pulled.get()})
                }
                Some(mp) => {
                    let old = std::mem::replace(&mut cage.m, mp);
                    drop(old);
                    json!({"r": "ok", "pulled": pulled.get()})
                }
            }
        }
        "fmt" => {
            let style = s(op, "style");
            fmt_map(&cage.m, style, ctx)
        }
        "clone" => {
            let m = &cage.m;
            let c = match call(ctx, || m.clone()) {
                None => return json!(["panic"]),
                Some(c) => c,
            };
            bind_clones(ctx, cage.m.iter().flat_map(|(k, v)| [k.serial, v.serial]).collect());
            let mut copy = Cage::new(c);
            c05_other_map(ctx, &copy.m, "clone");
            let cl: Vec<Value> = copy.m.iter().map(|(k, v)| ctx.je(k, v)).collect();
            {
                let (x, y) = (&copy.m, &cage.m);
                if call(ctx, || x == y) != Some(true) || call(ctx, || y == x) != Some(true) {
                    ctx.note("C15", "a fresh clone does not compare equal to its original".into());
                }
            }
            let then = &op["then"];
            let on_copy = s(op, "on") == "copy";
            let then_ret = if s(then, "name") == "none" {
                json!(["unit"])
            } else if on_copy {
                exec_map(&mut copy, then, ctx)
            } else {
                exec_map(cage, then, ctx)
            };
            let other: Vec<Value> =
                if on_copy { cage.m.iter().map(|(k, v)| ctx.je(k, v)).collect() } else { copy.m.iter().map(|(k, v)| ctx.je(k, v)).collect() };
            if !copy.intact() {
                ctx.note("C15,C03", "memory outside the clone was written".into());
            }
            if s(op, "survivor") == "copy" {
                std::mem::swap(&mut cage.m, &mut copy.m);
            }
            let _ = call(ctx, || drop(copy));
            ctx.span = cage.span();
            json!({"cl": cl, "then": then_ret, "other": other})
        }
        "clone_from" => {
            let mut dst = Cage::new(Map::<Key, Val, N>::new());
            for (idx, e) in op["dst"].as_array().unwrap().iter().enumerate() {
                let k = Key::new(e["c"].as_u64().unwrap() as Cls, e["r"].as_u64().unwrap() as u8);
                let v = Val::new(e["v"].as_u64().unwrap() as u8);
                ctx.tags.bind_k(60 + idx as i64 + 1, k.serial);
                ctx.tags.bind_v(60 + idx as i64 + 1, v.serial);
                dst.m.insert(k, v);
            }
            let src = &cage.m;
            let d = &mut dst.m;
            if call(ctx, || d.clone_from(src)).is_none() {
                let _ = call(ctx, || drop(dst));
                return json!(["panic"]);
            }
            bind_clones(ctx, cage.m.iter().flat_map(|(k, v)| [k.serial, v.serial]).collect());
            if dst.intact() && dst.m.len() <= N {
                c05_other_map(ctx, &dst.m, "destination of clone_from");
            }
            let cl: Vec<Value> = dst.m.iter().map(|(k, v)| ctx.je(k, v)).collect();
            let (x, y) = (&dst.m, &cage.m);
            let eq = call(ctx, || x == y) == Some(true) && call(ctx, || y == x) == Some(true);
            if !dst.intact() || dst.m.len() > N {
                ctx.note("C15,C03", "memory outside the destination of clone_from was written".into());
                std::mem::forget(dst);
            } else {
                let _ = call(ctx, || drop(dst));
            }
            json!({"cl": cl, "eq": eq})
        }
        "serde" => {
            let fmt = s(op, "fmt");
            let mcap = i(op, "m") as usize;
            let (data, announced, emitted) = match ser_any(&cage.m, fmt, true) {
                Some(x) => x,
                None => return json!(["panic"]),
            };
            fn de<const M: usize>(fmt: &str, data: &[u8], orig: &dyn Fn(&Map<Key, Val, M>) -> bool, ctx: &mut Ctx, inplace: bool) -> Value {
                let r = std::panic::catch_unwind(std::panic::AssertUnwindSafe(|| -> Option<Map<Key, Val, M>> {
                    if inplace && fmt == "json" {
                        // Deserialize::deserialize_in_place into a target that already holds a stale entry
                        let mut target: Map<Key, Val, M> = Map::new();
                        if M > 0 {
                            // (the stale entry is the harness' own: its destruction is not part of the observed step)
                            let (k, v) = (Key::new(777, 0), Val::new(9));
                            STALE.with(|x| x.borrow_mut().extend([k.serial, v.serial]));
                            target.insert(k, v);
                        }
                        let mut d = serde_json::Deserializer::from_slice(data);
                        serde::Deserialize::deserialize_in_place(&mut d, &mut target).ok()?;
                        Some(target)
                    } else if fmt == "json" {
                        serde_json::from_slice(data).ok()
                    } else {
                        bincode::serde::decode_from_slice(data, bincode::config::legacy()).ok().map(|x| x.0)
                    }
                }));
                match r {
                    Ok(Some(d)) => {
                        let ents: Vec<Value> = d.iter().map(|(k, v)| json!([0, k.class(), k.ver, 0, v.content])).collect();
                        let eq = orig(&d);
                        for (k, v) in d.iter() {
                            ctx.stash_serials.push(k.serial);
                            ctx.stash_serials.push(v.serial);
                        }
                        ctx.stash.push(Box::new(d));
                        json!({"de": ents, "ok": true, "eq": eq})
                    }
                    _ => json!({"de": [], "ok": false, "eq": false}),
                }
            }
            let m = &cage.m;
            let mut r = with_n!(mcap, de, fmt, &data, &|d| d == m && m == d, ctx, s(op, "place") == "inplace");
            let stale: Vec<u32> = STALE.with(|x| std::mem::take(&mut *x.borrow_mut()));
            ledger::with(|l| l.drops.retain(|(_, sr)| !stale.contains(sr)));
            r["announced"] = json!(announced);
            r["emitted"] = json!(emitted);
            r
        }
        "de_items" => {
            // a hand-made stream (repeated keys, too many keys) decoded into a fresh container of capacity N
            let fmt = s(op, "fmt");
            let data = stream_of(op, fmt, true);
            let first_new = ledger::with(|l| l.next);
            let r = std::panic::catch_unwind(std::panic::AssertUnwindSafe(|| -> Option<Map<Key, Val, N>> {
                if fmt == "json" {
                    serde_json::from_slice(&data).ok()
                } else {
                    bincode::serde::decode_from_slice(&data, bincode::config::legacy()).ok().map(|x| x.0)
                }
            }));
            // objects made and destroyed by the decoding itself are not the model's business (the ledger
            // still sees a double destruction, and the placement check an object that is lost)
            ledger::with(|l| l.drops.retain(|(_, sr)| *sr < first_new));
            match r {
                Ok(Some(d)) => {
                    c05_other_map(ctx, &d, "decoded from a hand-made stream");
                    for (k, v) in d.iter() {
                        if d.get(k).map(|x| std::ptr::eq(x, v)) != Some(true) {
                            ctx.note("C05", format!("decoded container: lookup of the stored key K#{} does not return the value stored with it", k.serial));
                        }
                    }
                    let ents: Vec<Value> = d.iter().map(|(k, v)| json!([0, k.class(), k.ver, 0, v.content])).collect();
                    for (k, v) in d.iter() {
                        ctx.stash_serials.push(k.serial);
                        ctx.stash_serials.push(v.serial);
                    }
                    ctx.stash.push(Box::new(d));
                    json!({"de": ents, "ok": true})
                }
                _ => json!({"de": [], "ok": false}),
            }
        }
        other => panic!("exec_map: unknown op {other}"),
    }
}

/// the standing predicate of C05 on a container other than the one under test (a clone, the
/// destination of clone_from): keys pairwise unequal, len() = what iteration yields, is_empty
fn c05_other_map<const N: usize>(ctx: &mut Ctx, m: &Map<Key, Val, N>, what: &str) {
    let ks: Vec<(Cls, u32)> = m.iter().map(|(k, _)| (k.class(), k.serial)).collect();
    if ks.len() != m.len() || m.is_empty() != ks.is_empty() || m.len() > N {
        ctx.note("C05", format!("{what}: len() = {} but iteration yields {} entries (capacity {N})", m.len(), ks.len()));
    }
    for a in 0..ks.len() {
        for b in (a + 1)..ks.len() {
            if ks[a].0 == ks[b].0 {
                ctx.note("C05", format!("{what}: two stored keys are equal (class {})", ks[a].0));
            }
        }
    }
}
fn c05_other_set<const N: usize>(ctx: &mut Ctx, m: &Set<Key, N>, what: &str) {
    let ks: Vec<Cls> = m.iter().map(|k| k.class()).collect();
    if ks.len() != m.len() || m.is_empty() != ks.is_empty() || m.len() > N {
        ctx.note("C05", format!("{what}: len() = {} but iteration yields {} elements (capacity {N})", m.len(), ks.len()));
    }
    for a in 0..ks.len() {
        for b in (a + 1)..ks.len() {
            if ks[a] == ks[b] {
                ctx.note("C05", format!("{what}: two stored elements are equal (class {})", ks[a]));
            }
        }
    }
}

/// A source iterator that records how it is consumed (C16). It can only be walked
/// front to back; `pulled` counts items handed out.
pub struct Source<'a, T> {
    pub items: std::vec::IntoIter<T>,
    pub pulled: &'a Cell<usize>,
    pub done: &'a Cell<usize>,
    /// what size_hint claims: 0 = nothing (0, None), 1 = the truth, 2 = "at most zero" (a lie safe code may tell)
    pub hint: u8,
}
pub fn hint_of(op: &Value) -> u8 {
    match op["hint"].as_str().unwrap_or("none") {
        "exact" => 1,
        "zero" => 2,
        _ => 0,
    }
}
impl<T> Iterator for Source<'_, T> {
    type Item = T;
    fn next(&mut self) -> Option<T> {
        let _s = ledger::Suspend::new();
        ledger::maybe_panic('n', 0, 0);
        let x = self.items.next();
        if x.is_some() {
            self.pulled.set(self.pulled.get() + 1);
        } else {
            self.done.set(self.done.get() + 1);
        }
        x
    }
    fn size_hint(&self) -> (usize, Option<usize>) {
        match self.hint {
            1 => (self.items.len(), Some(self.items.len())),
            2 => (0, Some(0)),
            _ => (0, None),
        }
    }
}

fn end_cursor<I: Iterator>(ctx: &mut Ctx, it: Option<I>, end: &str, n: usize) {
    let Some(it) = it else { return };
    if end == "forget" {
        std::mem::forget(it);
    } else if n % 2 == 1 {
        // count() consumes the rest, which destroys it exactly like a drop
        let _ = call(ctx, || it.count());
    } else {
        let _ = call(ctx, || drop(it));
    }
}

fn exec_cursor<const N: usize>(cage: &mut Cage<Map<Key, Val, N>>, op: &Value, ctx: &mut Ctx) -> Value {
    let kind = s(op, "kind");
    let n = i(op, "n") as usize;
    let w = i(op, "w");
    let end = s(op, "end");
    macro_rules! borrowing {
        (@clone $ito:ident, $ret:ident, $meth:ident) => {{ if let Some(mut $ito) = $ito {
            let cl = $ito.clone();
            let viaclone: Vec<Value> = {
                let mut c = cl;
                let mut v = vec![];
                while let Some(Some(x)) = call(ctx, || c.next()) {
                    v.push(x.json(ctx));
                }
                v
            };
            let cnt = call(ctx, || $ito.clone().count());
            let left = $ito.len();
            if cnt != Some(left) {
                ctx.note("C09", format!("count() = {cnt:?} but len() = {left}"));
            }
            let orig: Vec<Value> = {
                let mut v = vec![];
                while let Some(Some(x)) = call(ctx, || $ito.next()) {
                    v.push(x.json(ctx));
                }
                v
            };
            if viaclone != orig {
                ctx.note("C09", format!("a cloned iterator continues differently: clone {viaclone:?} original {orig:?}"));
            }
            {
                // Clone::clone_from into an iterator over ANOTHER container with as many items left
                let mut other = Map::<Key, Val, N>::new();
                for j in 0..viaclone.len().min(N) {
                    let (k, v) = (Key::new(900 + j as Cls, 0), Val::new(0));
                    ctx.stash_serials.push(k.serial);
                    ctx.stash_serials.push(v.serial);
                    other.insert(k, v);
                }
                let other = Box::new(other);
                let via_cf: Vec<Value> = {
                    let src = cage.m.$meth();
                    let mut src = src;
                    for _ in 0..(cage.m.len() - viaclone.len()) {
                        let _ = src.next();
                    }
                    let mut o = other.$meth();
                    let _ = call(ctx, || o.clone_from(&src));
                    let mut v = vec![];
                    while let Some(Some(x)) = call(ctx, || o.next()) {
                        v.push(x.json(ctx));
                    }
                    v
                };
                if via_cf != viaclone {
                    ctx.note("C09", format!("clone_from into an iterator over another container continues differently: {via_cf:?} vs {viaclone:?}"));
                }
                ctx.stash.push(other);
            }
            if s(op, "fin") == "none" && !$ret["rem"].is_null() && $ret["rem"].as_array().unwrap() != &orig {
                ctx.note("C19", format!("iterator Debug lists {:?} but it then yields {orig:?}", $ret["rem"]));
            }
        }}};
        (@noclone $ito:ident, $ret:ident) => {{ if let Some($ito) = $ito {
            let left = $ito.len();
            let cnt = call(ctx, || $ito.count());
            if cnt != Some(left) {
                ctx.note("C09", format!("count() = {cnt:?} but len() = {left}"));
            }
        }}};
        ($mk:expr, $meth:ident) => {{
            // a complete first traversal: a second traversal must agree with it (C09)
            let first: Vec<Value> = {
                let mut it0 = $mk;
                let mut v = vec![];
                while let Some(Some(x)) = call(ctx, || it0.next()) {
                    v.push(x.json(ctx));
                }
                v
            };
            let it = $mk;
            let (ret, it) = episode(ctx, it, op, n, w, "C09", true);
            let y = ret["yield"].as_array().unwrap();
            if y.len() > first.len() || y[..] != first[..y.len()] {
                ctx.note("C09", format!("two traversals of the unmodified container disagree: {first:?} vs {y:?}"));
            }
            borrowing!(@clone it, ret, $meth);
            ret
        }};
    }
    match kind {
        "iter" if s(op, "via") == "r" => {
            // IntoIterator for &Map
            let it = (&cage.m).into_iter();
            let (ret, it) = episode(ctx, it, op, n, w, "C09", true);
            borrowing!(@noclone it, ret);
            ret
        }
        "iter_mut" if s(op, "via") == "r" => {
            let it = (&mut cage.m).into_iter();
            let (ret, it) = episode(ctx, it, op, n, w, "C09", true);
            borrowing!(@noclone it, ret);
            ret
        }
        "iter" => borrowing!(cage.m.iter(), iter),
        "keys" => borrowing!(cage.m.keys(), keys),
        "values" => borrowing!(cage.m.values(), values),
        "iter_mut" => {
            let it = cage.m.iter_mut();
            let (ret, it) = episode(ctx, it, op, n, w, "C09", true);
            borrowing!(@noclone it, ret);
            ret
        }
        "values_mut" => {
            let it = cage.m.values_mut();
            let (ret, it) = episode(ctx, it, op, n, w, "C09", true);
            borrowing!(@noclone it, ret);
            ret
        }
        "into_iter" => {
            let m = std::mem::take(&mut cage.m);
            let it = m.into_iter();
            let (ret, it) = episode(ctx, it, op, n, NO_WRITE, "C10", true);
            end_cursor(ctx, it, end, n);
            ret
        }
        "into_keys" => {
            let m = std::mem::take(&mut cage.m);
            let it = m.into_keys();
            let (ret, it) = episode(ctx, it, op, n, NO_WRITE, "C10", true);
            end_cursor(ctx, it, end, n);
            ret
        }
        "into_values" => {
            let m = std::mem::take(&mut cage.m);
            let it = m.into_values();
            let (ret, it) = episode(ctx, it, op, n, NO_WRITE, "C10", true);
            end_cursor(ctx, it, end, n);
            ret
        }
        other => panic!("unknown cursor kind {other}"),
    }
}

fn exec_entry<const N: usize>(cage: &mut Cage<Map<Key, Val, N>>, op: &Value, ctx: &mut Ctx) -> Value {
    let m = s(op, "m");
    let w = i(op, "w");
    let k = ctx.mk_key(&op["k"]);
    let v = if takes_v(m) { Some(ctx.mk_val(&op["v"])) } else { None };
    let map = &mut cage.m;
    let cls = |occ: bool| if occ { "occ" } else { "vac" };
    let clsk = |occ: bool| if occ { "occk" } else { "vack" };
    let calls = Cell::new(0i64);
    let seen: Cell<Option<KO>> = Cell::new(None);
    let span_ = ctx.span;
    let outside = Cell::new(false);
    let closure_cb = || {
        let _s = ledger::Suspend::new();
        ledger::maybe_panic('f', 0, 0);
        calls.set(calls.get() + 1);
    };
    match m {
        "key" => {
            match call(ctx, || {
                let e = map.entry(k);
                let occ = matches!(e, Entry::Occupied(_));
                (occ, ko(e.key()))
            }) {
                None => json!(["panic"]),
                Some((occ, kk)) => {
                    if occ {
                        ctx.ko_inside("Entry::key", &kk);
                    }
                    json!([clsk(occ), ctx.tags.ktag(kk.serial), kk.class, kk.ver])
                }
            }
        }
        "or_insert" | "or_insert_with" | "or_insert_with_key" | "or_default" | "and_modify" => {
            let r = call(ctx, || {
                let e = map.entry(k);
                let occ = matches!(e, Entry::Occupied(_));
                let r: &mut Val = match m {
                    "or_insert" => e.or_insert(v.unwrap()),
                    "or_insert_with" => e.or_insert_with(|| {
                        closure_cb();
                        v.unwrap()
                    }),
                    "or_insert_with_key" => e.or_insert_with_key(|kk| {
                        closure_cb();
                        seen.set(Some(ko(kk)));
                        v.unwrap()
                    }),
                    "or_default" => e.or_default(),
                    _ => e
                        .and_modify(|x| {
                            closure_cb();
                            x.check("and_modify value");
                            let a = x as *const Val as usize;
                            if a < span_.0 || a + std::mem::size_of::<Val>() > span_.1 {
                                outside.set(true);
                            }
                            if w != NO_WRITE {
                                x.content = w as u8;
                            }
                        })
                        .or_insert(v.unwrap()),
                };
                (occ, vo(r))
            });
            if outside.get() {
                ctx.note("C06", "and_modify handed its closure a reference that points outside the container value".into());
            }
            match r {
                None if matches!(m, "or_insert_with" | "or_insert_with_key") && !ctx.injected => json!(["panic", calls.get()]),
                None => json!(["panic"]),
                Some((occ, o)) => {
                    ctx.vo_inside("entry value reference", &o);
                    if m == "or_default" {
                        // the value made by Default during this call is the model's fresh object
                        if let Some(&d) = ledger::with(|l| l.defaults.first().copied()).as_ref() {
                            ctx.tags.bind_v(ctx.fresh_tag, d);
                        }
                    }
                    let vt = ctx.tags.vtag(o.serial);
                    match m {
                        "or_insert" | "or_default" => json!([cls(occ), vt, o.content]),
                        "or_insert_with" | "and_modify" => json!([cls(occ), vt, o.content, calls.get()]),
                        _ => {
                            let sk = seen.get();
                            match sk {
                                Some(kk) => {
                                    json!([cls(occ), vt, o.content, calls.get(), ctx.tags.ktag(kk.serial), kk.class, kk.ver])
                                }
                                None => json!([cls(occ), vt, o.content, calls.get(), 0, 0, 0]),
                            }
                        }
                    }
                }
            }
        }
        _ => {
            // methods of one variant; the other variant is dropped untouched
            enum Got {
                Skip(bool),
                K(bool, KO),
                V(bool, VO),
                OwnedV(bool, Val),
                OwnedKV(bool, Key, Val),
                OwnedK(bool, Key),
            }
            let r = call(ctx, || match map.entry(k) {
                Entry::Occupied(mut o) => match m {
                    "occ_key" => Got::K(true, ko(o.key())),
                    "occ_get" => Got::V(true, vo(o.get())),
                    "occ_get_mut" => {
                        let x = o.get_mut();
                        let ob = vo(x);
                        if w != NO_WRITE {
                            x.content = w as u8;
                        }
                        Got::V(true, ob)
                    }
                    "occ_into_mut" => {
                        let x = o.into_mut();
                        let ob = vo(x);
                        if w != NO_WRITE {
                            x.content = w as u8;
                        }
                        Got::V(true, ob)
                    }
                    "occ_insert" => Got::OwnedV(true, o.insert(v.unwrap())),
                    "occ_remove" => Got::OwnedV(true, o.remove()),
                    "occ_remove_entry" => {
                        let (a, b) = o.remove_entry();
                        Got::OwnedKV(true, a, b)
                    }
                    _ => {
                        drop(v);
                        Got::Skip(true)
                    }
                },
                Entry::Vacant(e) => match m {
                    "vac_key" => Got::K(false, ko(e.key())),
                    "vac_into_key" => Got::OwnedK(false, e.into_key()),
                    "vac_insert" => Got::V(false, vo(e.insert(v.unwrap()))),
                    _ => {
                        drop(v);
                        Got::Skip(false)
                    }
                },
            });
            match r {
                None => json!(["panic"]),
                Some(Got::Skip(occ)) => json!([if occ { "occ_skip" } else { "vac_skip" }]),
                Some(Got::K(occ, kk)) => {
                    if occ {
                        ctx.ko_inside("OccupiedEntry::key", &kk);
                    }
                    json!([clsk(occ), ctx.tags.ktag(kk.serial), kk.class, kk.ver])
                }
                Some(Got::V(occ, o)) => {
                    ctx.vo_inside("entry value reference", &o);
                    json!([cls(occ), ctx.tags.vtag(o.serial), o.content])
                }
                Some(Got::OwnedV(occ, val)) => {
                    let o = vo(&val);
                    ctx.hold_v(val);
                    json!([cls(occ), ctx.tags.vtag(o.serial), o.content])
                }
                Some(Got::OwnedKV(occ, a, b)) => {
                    let (ka, vb) = (ko(&a), vo(&b));
                    ctx.hold_k(a);
                    ctx.hold_v(b);
                    json!([cls(occ), ctx.tags.ktag(ka.serial), ka.class, ka.ver, ctx.tags.vtag(vb.serial), vb.content])
                }
                Some(Got::OwnedK(occ, a)) => {
                    let ka = ko(&a);
                    ctx.hold_k(a);
                    json!([clsk(occ), ctx.tags.ktag(ka.serial), ka.class, ka.ver])
                }
            }
        }
    }
}

fn disjoint<const N: usize, const J: usize>(
    cage: &mut Cage<Map<Key, Val, N>>,
    ks: &[Cls],
    w: i64,
    unchecked: bool,
    ctx: &mut Ctx,
) -> Value {
    let probes: Vec<Class> = ks.iter().map(|&c| class_probe(c)).collect();
    let arr: [&Class; J] = std::array::from_fn(|j| &probes[j]);
    let m = &mut cage.m;
    let r = call(ctx, || {
        let got: [Option<&mut Val>; J] =
            if unchecked { unsafe { m.get_disjoint_unchecked_mut(arr) } } else { m.get_disjoint_mut(arr) };
        let mut out: Vec<Option<VO>> = vec![];
        {
            let _s = ledger::Suspend::new();
            for g in got {
                match g {
                    None => out.push(None),
                    Some(v) => {
                        let o = vo(v);
                        if w != NO_WRITE {
                            v.content = w as u8;
                        }
                        out.push(Some(o));
                    }
                }
            }
        }
        out
    });
    match r {
        None => json!(["panic"]),
        Some(out) => {
            // the references handed out together must not alias (C13)
            for a in 0..out.len() {
                for b in (a + 1)..out.len() {
                    if let (Some(x), Some(y)) = (&out[a], &out[b]) {
                        let sz = std::mem::size_of::<Val>();
                        if x.addr < y.addr + sz && y.addr < x.addr + sz {
                            ctx.note("C13,C17", format!("get_disjoint_mut returned aliasing references at positions {a} and {b}"));
                        }
                    }
                }
            }
            let pos: Vec<Value> = out
                .iter()
                .map(|o| match o {
                    None => json!(["none"]),
                    Some(o) => {
                        ctx.vo_inside("get_disjoint_mut", o);
                        ctx.rvo(o)
                    }
                })
                .collect();
            json!(["pos", pos])
        }
    }
}

struct AsMap<'a>(&'a [(&'a Key, &'a Val)]);
impl std::fmt::Debug for AsMap<'_> {
    fn fmt(&self, f: &mut std::fmt::Formatter<'_>) -> std::fmt::Result {
        f.debug_map().entries(self.0.iter().map(|(k, v)| (*k, *v))).finish()
    }
}
struct AsSet<'a>(&'a [&'a Key]);
impl std::fmt::Debug for AsSet<'_> {
    fn fmt(&self, f: &mut std::fmt::Formatter<'_>) -> std::fmt::Result {
        f.debug_set().entries(self.0.iter()).finish()
    }
}

fn fmt_map<const N: usize>(m: &Map<Key, Val, N>, style: &str, ctx: &mut Ctx) -> Value {
    let seq: Vec<(&Key, &Val)> = m.iter().collect();
    let mut sink = StackSink::new();
    let r = match style {
        "debug" => call(ctx, || write!(sink, "{:?}", m)),
        "alt" => call(ctx, || write!(sink, "{:#?}", m)),
        "debug_w" => call(ctx, || write!(sink, "{:<14?}", m)),
        "display_w" => call(ctx, || write!(sink, "{:>40}", m)),
        "display_alt" => call(ctx, || write!(sink, "{:#}", m)),
        _ => call(ctx, || write!(sink, "{}", m)),
    };
    if r.is_none() {
        return json!(["panic"]);
    }
    let expect = match style {
        "debug" => format!("{:?}", AsMap(&seq)),
        "alt" => format!("{:#?}", AsMap(&seq)),
        "debug_w" => format!("{:<14?}", AsMap(&seq)),
        _ => {
            let parts: Vec<String> = seq.iter().map(|(k, v)| format!("{k}: {v}")).collect();
            format!("{{{}}}", parts.join(", "))
        }
    };
    // with a width in the format spec the property does not say whether the flags reach the
    // elements: both renderings of the ENTRIES are accepted, padding of the whole is not
    let alt = if style == "display_w" {
        let parts: Vec<String> = seq.iter().map(|(k, v)| format!("{k:>40}: {v:>40}")).collect();
        format!("{{{}}}", parts.join(", "))
    } else if style == "display_alt" {
        let parts: Vec<String> = seq.iter().map(|(k, v)| format!("{k:#}: {v:#}")).collect();
        format!("{{{}}}", parts.join(", "))
    } else {
        expect.clone()
    };
    if sink.overflow || (sink.as_str() != expect && sink.as_str() != alt) {
        ctx.note("C19", format!("Map {style} rendering is {:?}, expected {:?}", sink.as_str(), expect));
    }
    // a sink that is too small: whatever it refuses, the call must not report success with
    // anything but the complete rendering in the sink
    let full = sink.as_str().to_string();
    for limit in short_limits(full.len()) {
        let mut small = StackSink::bounded(limit);
        let r = match style {
            "debug" => call(ctx, || write!(small, "{:?}", m)),
            "alt" => call(ctx, || write!(small, "{:#?}", m)),
            "debug_w" => call(ctx, || write!(small, "{:<14?}", m)),
            "display_w" => call(ctx, || write!(small, "{:>40}", m)),
            "display_alt" => call(ctx, || write!(small, "{:#}", m)),
            _ => call(ctx, || write!(small, "{}", m)),
        };
        if r == Some(Ok(())) && small.as_str() != full {
            ctx.note("C19", format!("Map {style} into a sink of {limit} bytes reports success but the sink holds {:?}, not {:?}", small.as_str(), full));
            break;
        }
    }
    let ents: Vec<Value> = seq.iter().map(|(k, v)| ctx.je(k, v)).collect();
    json!(["ents", ents])
}

/// sink sizes below the size of a complete rendering (all of them when it is short)
fn short_limits(full: usize) -> Vec<usize> {
    if full <= 96 {
        (0..full).collect()
    } else {
        (0..full).step_by(full / 48 + 1).chain(full.saturating_sub(3)..full).collect()
    }
}

// ------------------------------------------------------------------ Set --
pub fn observe_set<const N: usize>(m: &Set<Key, N>) -> Vec<KO> {
    m.iter().map(ko).collect()
}

pub fn exec_set<const N: usize>(cage: &mut Cage<Set<Key, N>>, op: &Value, ctx: &mut Ctx) -> Value {
    ctx.span = cage.span();
    let name = s(op, "name");
    match name {
        "s_insert" => {
            let k = ctx.mk_key(&op["k"]);
            let m = &mut cage.m;
            match call(ctx, || m.insert(k)) {
                None => json!(["panic"]),
                Some(b) => json!(["b", b]),
            }
        }
        "s_replace" => {
            let k = ctx.mk_key(&op["k"]);
            let m = &mut cage.m;
            match call(ctx, || m.replace(k)) {
                None => json!(["panic"]),
                Some(None) => json!(["none"]),
                Some(Some(old)) => {
                    let j = ctx.rko(&ko(&old));
                    ctx.hold_k(old);
                    j
                }
            }
        }
        "s_contains" => {
            let m = &cage.m;
            match by_form!(ctx, op, |q| call(ctx, || m.contains(q))) {
                None => json!(["panic"]),
                Some(b) => json!(["b", b]),
            }
        }
        "s_get" => {
            let m = &cage.m;
            match by_form!(ctx, op, |q| call(ctx, || m.get(q).map(ko))) {
                None => json!(["panic"]),
                Some(None) => json!(["none"]),
                Some(Some(kk)) => {
                    ctx.ko_inside("Set::get", &kk);
                    ctx.rko(&kk)
                }
            }
        }
        "s_remove" => {
            let m = &mut cage.m;
            match by_form!(ctx, op, |q| call(ctx, || m.remove(q))) {
                None => json!(["panic"]),
                Some(b) => json!(["b", b]),
            }
        }
        "s_take" => {
            let m = &mut cage.m;
            match by_form!(ctx, op, |q| call(ctx, || m.take(q))) {
                None => json!(["panic"]),
                Some(None) => json!(["none"]),
                Some(Some(k)) => {
                    let j = ctx.rko(&ko(&k));
                    ctx.hold_k(k);
                    j
                }
            }
        }
        "s_retain" => {
            let keep: Vec<Cls> = op["keep"].as_array().unwrap().iter().map(|x| x.as_u64().unwrap() as Cls).collect();
            let m = &mut cage.m;
            let span = ctx.span;
            let outside = Cell::new(0usize);
            let r = call(ctx, || {
                m.retain(|k| {
                    let _s = ledger::Suspend::new();
                    k.check("retain predicate key");
                    let ka = k as *const Key as usize;
                    if ka < span.0 || ka + std::mem::size_of::<Key>() > span.1 {
                        outside.set(outside.get() + 1);
                    }
                    ledger::maybe_panic('p', k.serial, 0);
                    keep.contains(&k.class())
                })
            });
            if outside.get() > 0 {
                ctx.note("C06", format!("retain handed its predicate {} reference(s) that point outside the container value", outside.get()));
            }
            match r {
                None => json!(["panic"]),
                Some(()) => json!(["unit"]),
            }
        }
        "s_clear" => {
            let m = &mut cage.m;
            match call(ctx, || m.clear()) {
                None => json!(["panic"]),
                Some(()) => json!(["unit"]),
            }
        }
        "s_eq_clone" => {
            // (traces) a container compares equal to its own clone, whatever its size and slot order
            let m = &cage.m;
            let r = call(ctx, || {
                let c = m.clone();
                let e = c == *m && *m == c && !(c != *m);
                drop(c);
                e
            });
            // the clone's objects came and went inside the call: they are not part of the observed step
            let made: Vec<u32> = ledger::with(|l| l.clones.iter().map(|x| x.1).collect());
            ledger::with(|l| l.drops.retain(|(_, sr)| !made.contains(sr)));
            match r {
                None => json!(["panic"]),
                Some(b) => json!(["b", b]),
            }
        }
        "s_eq_other" => {
            // (traces) the container against another set of a different capacity holding op.b
            let mut b: Box<Set<Key, OTHER_CAP>> = Box::new(Set::new());
            for e in op["b"].as_array().unwrap() {
                let k = Key::new(e[0].as_u64().unwrap() as Cls, 1);
                ctx.stash_serials.push(k.serial);
                b.insert(k);
            }
            let a = &cage.m;
            let bb: &Set<Key, OTHER_CAP> = &b;
            let r = (call(ctx, || a == bb), call(ctx, || a != bb), call(ctx, || bb == a));
            ctx.stash.push(b);
            match r {
                (Some(eq), Some(ne), Some(rev)) => json!(["eqs", eq, ne, rev]),
                _ => json!(["panic"]),
            }
        }
        "s_algebra" => {
            // (traces) the container against a second set: lazy adaptors and predicates at any size
            let mut b = Set::<Key, N>::new();
            for c in op["b"].as_array().unwrap() {
                let k = Key::new(c.as_u64().unwrap() as Cls, 1);
                ctx.stash_serials.push(k.serial);
                b.insert(k);
            }
            let b = Box::new(b);
            let a = &cage.m;
            let bb: &Set<Key, N> = &b;
            let y: Option<Vec<Cls>> = match s(op, "kind") {
                "union" => call(ctx, || a.union(bb).map(|k| k.class()).collect()),
                "intersection" => call(ctx, || a.intersection(bb).map(|k| k.class()).collect()),
                "difference" => call(ctx, || a.difference(bb).map(|k| k.class()).collect()),
                _ => call(ctx, || a.symmetric_difference(bb).map(|k| k.class()).collect()),
            };
            let sub = call(ctx, || a.is_subset(bb));
            let sup = call(ctx, || a.is_superset(bb));
            let dis = call(ctx, || a.is_disjoint(bb));
            ctx.allocs = 0; // (collecting into a Vec is the harness' doing)
            ctx.notes.retain(|n| !n.msg.contains("allocator call"));
            ctx.stash.push(b);
            match (y, sub, sup, dis) {
                (Some(y), Some(sub), Some(sup), Some(dis)) => json!({"y": y, "sub": sub, "sup": sup, "dis": dis}),
                _ => json!(["panic"]),
            }
        }
        "b_eq" | "b_pred" | "b_alg" | "b_sub" => {
            // binary operations against a second set holding the classes op.b (objects 50 + i);
            // the same episodes as the micro model (MapMicro.tla, "binary" family)
            let mut b = Set::<Key, N>::new();
            {
                // (under a comparison script the operand is built like the state: every key appended)
                let saved = ledger::with(|l| (l.eq_script.take(), l.in_call, l.panic_at));
                ledger::with(|l| {
                    l.eq_script = Some(vec![]);
                    l.eq_default = false;
                    l.in_call = true;
                    l.panic_at = 0;
                });
                let (cb0, pos0) = ledger::with(|l| (l.cb, l.eq_pos));
                for (idx, c) in op["b"].as_array().unwrap().iter().enumerate() {
                    let k = Key::new(c.as_u64().unwrap() as Cls, 1);
                    ctx.tags.bind_k(50 + idx as i64 + 1, k.serial);
                    ctx.stash_serials.push(k.serial);
                    b.insert(k);
                }
                ledger::with(|l| {
                    l.eq_script = saved.0;
                    l.in_call = saved.1;
                    l.panic_at = saved.2;
                    l.cb = cb0;
                    l.eq_pos = pos0;
                    l.eq_overrun = 0;
                    let keep = l.cb_log.len().min(cb0 as usize);
                    l.cb_log.truncate(keep);
                });
            }
            let b = Box::new(b);
            let a = &cage.m;
            let bb: &Set<Key, N> = &b;
            let r = match name {
                "b_eq" if op["ne"].as_bool().unwrap_or(false) => json!(["b", call(ctx, || a != bb)]),
                "b_eq" => json!(["b", call(ctx, || a == bb)]),
                "b_pred" => json!(["b", match s(op, "p") {
                    "is_subset" => call(ctx, || a.is_subset(bb)),
                    "is_superset" => call(ctx, || a.is_superset(bb)),
                    _ => call(ctx, || a.is_disjoint(bb)),
                }]),
                "b_alg" => {
                    let n = i(op, "n") as usize;
                    fn drive<'x, I: Iterator<Item = &'x Key>>(ctx: &mut Ctx, mut it: I, n: usize) -> usize {
                        let mut got = 0;
                        for _ in 0..n {
                            match call(ctx, || it.next().map(|k| k.check("set algebra item"))) {
                                Some(Some(_)) => got += 1,
                                _ => break,
                            }
                        }
                        got + call(ctx, || {
                            it.fold(0usize, |c, k| {
                                k.check("set algebra item");
                                let _s = ledger::Suspend::new();
                                ledger::maybe_panic('g', 0, 0);
                                c + 1
                            })
                        })
                        .unwrap_or(0)
                    }
                    let cnt = match s(op, "kind") {
                        "union" => drive(ctx, a.union(bb), n),
                        "intersection" => drive(ctx, a.intersection(bb), n),
                        "difference" => drive(ctx, a.difference(bb), n),
                        _ => drive(ctx, a.symmetric_difference(bb), n),
                    };
                    json!(["n", cnt])
                }
                _ => match call(ctx, || a - bb) {
                    None => json!(["panic"]),
                    Some(d) => {
                        let cnt = d.iter().map(|k| k.check("element of a - b")).count();
                        let _ = call(ctx, || drop(d));
                        json!(["n", cnt])
                    }
                },
            };
            ctx.stash.push(b);
            r
        }
        "s_default" => {
            match call(ctx, Set::<Key, N>::default) {
                None => json!(["panic"]),
                Some(nm) => {
                    if !nm.is_empty() || nm.capacity() != N {
                        ctx.note("C03,C05", "a newly constructed container is not empty or has the wrong capacity".into());
                    }
                    let old = std::mem::replace(&mut cage.m, nm);
                    let _ = call(ctx, || drop(old));
                    json!(["unit"])
                }
            }
        }
        "s_drop" => {
            let m = std::mem::take(&mut cage.m);
            match call(ctx, || drop(m)) {
                None => json!(["panic"]),
                Some(()) => json!(["unit"]),
            }
        }
        "s_drain" => {
            let n = i(op, "n") as usize;
            let m = &mut cage.m;
            let d = match call(ctx, || m.drain()) {
                None => return json!(["panic"]),
                Some(d) => d,
            };
            // SetDrain has no Debug impl
            let (mut ret, d) = episode(ctx, NoDebug(d), op, n, NO_WRITE, "C10", false);
            ret["rem"] = Value::Null;
            end_cursor(ctx, d.map(|x| x.0), s(op, "end"), n);
            ret
        }
        "s_iter" => {
            let n = i(op, "n") as usize;
            let first: Vec<Value> = cage.m.iter().map(|k| ctx.jk(k)).collect();
            let it = if s(op, "via") == "r" { (&cage.m).into_iter() } else { cage.m.iter() };
            // what the cursor still holds after the n plain steps, read through a clone taken then
            let rem_probe: Vec<Value> = cage.m.iter().skip(n).map(|k| ctx.jk(k)).collect();
            let (mut ret, it) = episode(ctx, NoDebug(it), op, n, NO_WRITE, "C09", false);
            let y = ret["yield"].as_array().unwrap();
            if y.len() > first.len() || y[..] != first[..y.len()] {
                ctx.note("C09", format!("two traversals of the unmodified set disagree: {first:?} vs {y:?}"));
            }
            ret["rem"] = Value::Array(rem_probe);
            if let Some(NoDebug(it)) = it {
                let cl = it.clone();
                let viaclone: Vec<Value> = cl.map(|k| ctx.jk(k)).collect();
                let left = it.len();
                let cnt = call(ctx, || it.clone().count());
                if cnt != Some(left) {
                    ctx.note("C09", format!("count() = {cnt:?} but len() = {left}"));
                }
                let orig: Vec<Value> = it.map(|k| ctx.jk(k)).collect();
                if viaclone != orig {
                    ctx.note("C09", "a cloned set iterator continues differently".to_string());
                }
                if s(op, "fin") == "none" {
                    ret["rem"] = Value::Array(orig);
                }
            }
            ret
        }
        "s_into_iter" => {
            let n = i(op, "n") as usize;
            let m = std::mem::take(&mut cage.m);
            let it = m.into_iter();
            let (mut ret, it) = episode(ctx, NoDebug(it), op, n, NO_WRITE, "C10", false);
            ret["rem"] = Value::Null;
            end_cursor(ctx, it.map(|x| x.0), s(op, "end"), n);
            ret
        }
        "s_extend" | "s_from_iter" | "s_from_array" => {
            let items: Vec<Key> = op["items"].as_array().unwrap().iter().map(|it| ctx.mk_key(&it["k"])).collect();
            let pulled = Cell::new(0usize);
            let done = Cell::new(0usize);
            let m = &mut cage.m;
            let r = match name {
                "s_extend" => {
                    let src = Source { items: items.into_iter(), pulled: &pulled, done: &done, hint: hint_of(op) };
                    match call(ctx, || m.extend(src)) {
                        None => json!({"r": "panic", "pulled": pulled.get()}),
                        Some(()) => json!({"r": "ok", "pulled": pulled.get()}),
                    }
                }
                "s_from_iter" => {
                    let src = Source { items: items.into_iter(), pulled: &pulled, done: &done, hint: hint_of(op) };
                    match call(ctx, || src.collect::<Set<Key, N>>()) {
                        None => json!({"r": "panic", "pulled": pulled.get()}),
                        Some(st) => {
                            let old = std::mem::replace(m, st);
                            drop(old);
                            json!({"r": "ok", "pulled": pulled.get()})
                        }
                    }
                }
                _ => {
                    assert_eq!(items.len(), N);
                    let mut it = items.into_iter();
                    let arr: [Key; N] = std::array::from_fn(|_| it.next().unwrap());
                    match call(ctx, || Set::<Key, N>::from(arr)) {
                        None => json!({"r": "panic", "pulled": N}),
                        Some(st) => {
                            let old = std::mem::replace(m, st);
                            drop(old);
                            json!({"r": "ok", "pulled": N})
                        }
                    }
                }
            };
            if done.get() > 1 {
                ctx.note("C16", "the source iterator was polled again after it had returned None".into());
            }
            r
        }
        "clone" => {
            let m = &cage.m;
            let c = match call(ctx, || m.clone()) {
                None => return json!(["panic"]),
                Some(c) => c,
            };
            bind_clones(ctx, cage.m.iter().map(|k| k.serial).collect());
            let mut copy = Cage::new(c);
            c05_other_set(ctx, &copy.m, "clone");
            let cl: Vec<Value> = copy.m.iter().map(|k| ctx.je_set(k)).collect();
            {
                let (x, y) = (&copy.m, &cage.m);
                if call(ctx, || x == y) != Some(true) || call(ctx, || y == x) != Some(true) {
                    ctx.note("C15", "a fresh clone does not compare equal to its original".into());
                }
            }
            let then = &op["then"];
            let on_copy = s(op, "on") == "copy";
            let then_ret = if s(then, "name") == "none" {
                json!(["unit"])
            } else if on_copy {
                exec_set(&mut copy, then, ctx)
            } else {
                exec_set(cage, then, ctx)
            };
            let other: Vec<Value> =
                if on_copy { cage.m.iter().map(|k| ctx.je_set(k)).collect() } else { copy.m.iter().map(|k| ctx.je_set(k)).collect() };
            if !copy.intact() {
                ctx.note("C15,C03", "memory outside the clone was written".into());
            }
            if s(op, "survivor") == "copy" {
                std::mem::swap(&mut cage.m, &mut copy.m);
            }
            let _ = call(ctx, || drop(copy));
            ctx.span = cage.span();
            json!({"cl": cl, "then": then_ret, "other": other})
        }
        "s_clone_from" => {
            let mut dst = Cage::new(Set::<Key, N>::new());
            for (idx, e) in op["dst"].as_array().unwrap().iter().enumerate() {
                let k = Key::new(e["c"].as_u64().unwrap() as Cls, e["r"].as_u64().unwrap() as u8);
                ctx.tags.bind_k(60 + idx as i64 + 1, k.serial);
                dst.m.insert(k);
            }
            let src = &cage.m;
            let d = &mut dst.m;
            if call(ctx, || d.clone_from(src)).is_none() {
                let _ = call(ctx, || drop(dst));
                return json!(["panic"]);
            }
            bind_clones(ctx, cage.m.iter().map(|k| k.serial).collect());
            if dst.intact() && dst.m.len() <= N {
                c05_other_set(ctx, &dst.m, "destination of clone_from");
            }
            let cl: Vec<Value> = dst.m.iter().map(|k| ctx.je_set(k)).collect();
            let (x, y) = (&dst.m, &cage.m);
            let eq = call(ctx, || x == y) == Some(true) && call(ctx, || y == x) == Some(true);
            if !dst.intact() || dst.m.len() > N {
                ctx.note("C15,C03", "memory outside the destination of clone_from was written".into());
                std::mem::forget(dst);
            } else {
                let _ = call(ctx, || drop(dst));
            }
            json!({"cl": cl, "eq": eq})
        }
        "serde" => {
            let fmt = s(op, "fmt");
            let mcap = i(op, "m") as usize;
            let (data, announced, emitted) = match ser_any(&cage.m, fmt, false) {
                Some(x) => x,
                None => return json!(["panic"]),
            };
            fn de<const M: usize>(fmt: &str, data: &[u8], orig: &dyn Fn(&Set<Key, M>) -> bool, ctx: &mut Ctx, inplace: bool) -> Value {
                let r = std::panic::catch_unwind(std::panic::AssertUnwindSafe(|| -> Option<Set<Key, M>> {
                    if inplace && fmt == "json" {
                        let mut target: Set<Key, M> = Set::new();
                        if M > 0 {
                            let k = Key::new(777, 0);
                            STALE.with(|x| x.borrow_mut().push(k.serial));
                            target.insert(k);
                        }
                        let mut d = serde_json::Deserializer::from_slice(data);
                        serde::Deserialize::deserialize_in_place(&mut d, &mut target).ok()?;
                        Some(target)
                    } else if fmt == "json" {
                        serde_json::from_slice(data).ok()
                    } else {
                        bincode::serde::decode_from_slice(data, bincode::config::legacy()).ok().map(|x| x.0)
                    }
                }));
                match r {
                    Ok(Some(d)) => {
                        let ents: Vec<Value> = d.iter().map(|k| json!([0, k.class(), k.ver, 0, 0])).collect();
                        let eq = orig(&d);
                        for k in d.iter() {
                            ctx.stash_serials.push(k.serial);
                        }
                        ctx.stash.push(Box::new(d));
                        json!({"de": ents, "ok": true, "eq": eq})
                    }
                    _ => json!({"de": [], "ok": false, "eq": false}),
                }
            }
            let m = &cage.m;
            let mut r = with_n!(mcap, de, fmt, &data, &|d| d == m && m == d, ctx, s(op, "place") == "inplace");
            let stale: Vec<u32> = STALE.with(|x| std::mem::take(&mut *x.borrow_mut()));
            ledger::with(|l| l.drops.retain(|(_, sr)| !stale.contains(sr)));
            r["announced"] = json!(announced);
            r["emitted"] = json!(emitted);
            r
        }
        "s_fmt" => {
            let style = s(op, "style");
            let m = &cage.m;
            let seq: Vec<&Key> = m.iter().collect();
            let mut sink = StackSink::new();
            let r = match style {
                "debug" => call(ctx, || write!(sink, "{:?}", m)),
                "alt" => call(ctx, || write!(sink, "{:#?}", m)),
                "debug_w" => call(ctx, || write!(sink, "{:<14?}", m)),
                "display_w" => call(ctx, || write!(sink, "{:>40}", m)),
                "display_alt" => call(ctx, || write!(sink, "{:#}", m)),
                _ => call(ctx, || write!(sink, "{}", m)),
            };
            if r.is_none() {
                return json!(["panic"]);
            }
            let expect = match style {
                "debug" => format!("{:?}", AsSet(&seq)),
                "alt" => format!("{:#?}", AsSet(&seq)),
                "debug_w" => format!("{:<14?}", AsSet(&seq)),
                _ => {
                    let parts: Vec<String> = seq.iter().map(|k| format!("{k}")).collect();
                    format!("{{{}}}", parts.join(", "))
                }
            };
            let alt = if style == "display_w" {
                let parts: Vec<String> = seq.iter().map(|k| format!("{k:>40}")).collect();
                format!("{{{}}}", parts.join(", "))
            } else if style == "display_alt" {
                let parts: Vec<String> = seq.iter().map(|k| format!("{k:#}")).collect();
                format!("{{{}}}", parts.join(", "))
            } else {
                expect.clone()
            };
            if sink.overflow || (sink.as_str() != expect && sink.as_str() != alt) {
                ctx.note("C19", format!("Set {style} rendering is {:?}, expected {:?}", sink.as_str(), expect));
            }
            let full = sink.as_str().to_string();
            for limit in short_limits(full.len()) {
                let mut small = StackSink::bounded(limit);
                let r = match style {
                    "debug" => call(ctx, || write!(small, "{:?}", m)),
                    "alt" => call(ctx, || write!(small, "{:#?}", m)),
                    "debug_w" => call(ctx, || write!(small, "{:<14?}", m)),
                    "display_w" => call(ctx, || write!(small, "{:>40}", m)),
                    "display_alt" => call(ctx, || write!(small, "{:#}", m)),
                    _ => call(ctx, || write!(small, "{}", m)),
                };
                if r == Some(Ok(())) && small.as_str() != full {
                    ctx.note("C19", format!("Set {style} into a sink of {limit} bytes reports success but the sink holds {:?}, not {:?}", small.as_str(), full));
                    break;
                }
            }
            let ents: Vec<Value> = seq.iter().map(|k| ctx.je_set(k)).collect();
            json!(["ents", ents])
        }
        "de_items" => {
            let fmt = s(op, "fmt");
            let data = stream_of(op, fmt, false);
            let first_new = ledger::with(|l| l.next);
            let r = std::panic::catch_unwind(std::panic::AssertUnwindSafe(|| -> Option<Set<Key, N>> {
                if fmt == "json" {
                    serde_json::from_slice(&data).ok()
                } else {
                    bincode::serde::decode_from_slice(&data, bincode::config::legacy()).ok().map(|x| x.0)
                }
            }));
            ledger::with(|l| l.drops.retain(|(_, sr)| *sr < first_new));
            match r {
                Ok(Some(d)) => {
                    c05_other_set(ctx, &d, "decoded from a hand-made stream");
                    let ents: Vec<Value> = d.iter().map(|k| json!([0, k.class(), k.ver, 0, 0])).collect();
                    for k in d.iter() {
                        ctx.stash_serials.push(k.serial);
                    }
                    ctx.stash.push(Box::new(d));
                    json!({"de": ents, "ok": true})
                }
                _ => json!({"de": [], "ok": false}),
            }
        }
        other => panic!("exec_set: unknown op {other}"),
    }
}

/// wrapper giving a cursor without a Debug impl the episode interface; the provided
/// methods are forwarded explicitly so that the real iterator's own versions run
pub struct NoDebug<I>(pub I);
impl<I: Iterator> Iterator for NoDebug<I> {
    type Item = I::Item;
    fn next(&mut self) -> Option<I::Item> {
        self.0.next()
    }
    fn size_hint(&self) -> (usize, Option<usize>) {
        self.0.size_hint()
    }
    fn nth(&mut self, n: usize) -> Option<I::Item> {
        self.0.nth(n)
    }
    fn last(self) -> Option<I::Item> {
        self.0.last()
    }
    fn count(self) -> usize {
        self.0.count()
    }
    fn fold<B, F: FnMut(B, I::Item) -> B>(self, init: B, f: F) -> B {
        self.0.fold(init, f)
    }
}
impl<I: ExactSizeIterator> ExactSizeIterator for NoDebug<I> {
    fn len(&self) -> usize {
        self.0.len()
    }
}
impl<I> std::fmt::Debug for NoDebug<I> {
    fn fmt(&self, _f: &mut std::fmt::Formatter<'_>) -> std::fmt::Result {
        Ok(())
    }
}

/// Bind the objects made by `clone` to the model's clone tags (20 + source tag) and check
/// that every stored object was cloned exactly once and nothing else was (C15).
fn bind_clones(ctx: &mut Ctx, stored: Vec<u32>) {
    let clones = ledger::with(|l| l.clones.clone());
    let mut seen = HashSet::new();
    for (src, new) in &clones {
        if !seen.insert(*src) {
            ctx.note("C15", format!("object #{src} was cloned more than once"));
        }
        if let Some(t) = ctx.tags.rk.get(src).copied() {
            ctx.tags.bind_k(20 + t, *new);
        } else if let Some(t) = ctx.tags.rv.get(src).copied() {
            ctx.tags.bind_v(20 + t, *new);
        } else {
            ctx.note("C15", format!("clone() cloned object #{src}, which is not stored in the container"));
        }
    }
    for sr in stored {
        if !seen.contains(&sr) {
            ctx.note("C15", format!("stored object #{sr} was not cloned by clone()"));
        }
    }
}

/// The bytes of a hand-made stream holding the op's items in order: a JSON object / array, or bincode's
/// legacy encoding (8-byte count, keys as 8-byte length + "class.ver", map values as one byte).
fn stream_of(op: &Value, fmt: &str, is_map: bool) -> Vec<u8> {
    let items = op["stream"].as_array().unwrap();
    let key = |it: &Value| format!("{}.{}", it["k"]["c"].as_u64().unwrap(), it["k"]["r"].as_u64().unwrap());
    let val = |it: &Value| it["v"]["v"].as_u64().unwrap_or(0) as u8;
    if fmt == "json" {
        let body: Vec<String> =
            items.iter().map(|it| if is_map { format!("\"{}\":{}", key(it), val(it)) } else { format!("\"{}\"", key(it)) }).collect();
        let (a, b) = if is_map { ("{", "}") } else { ("[", "]") };
        format!("{a}{}{b}", body.join(",")).into_bytes()
    } else {
        let mut b: Vec<u8> = (items.len() as u64).to_le_bytes().to_vec();
        for it in items {
            let k = key(it);
            b.extend((k.len() as u64).to_le_bytes());
            b.extend(k.as_bytes());
            if is_map {
                b.push(val(it));
            }
        }
        b
    }
}

/// Serialize with serde_json or bincode (legacy config: fixed 8-byte length prefix) and
/// read back what was announced and how many entries were actually emitted (C20).
fn ser_any<T: serde::Serialize>(m: &T, fmt: &str, is_map: bool) -> Option<(Vec<u8>, usize, usize)> {
    let r = std::panic::catch_unwind(std::panic::AssertUnwindSafe(|| {
        if fmt == "json" {
            let sj = serde_json::to_vec(m).ok()?;
            let v: Value = serde_json::from_slice(&sj).ok()?;
            let n = if is_map { v.as_object()?.len() } else { v.as_array()?.len() };
            // JSON has no length prefix: what is announced is not observable there
            Some((sj, n, n))
        } else {
            let b = bincode::serde::encode_to_vec(m, bincode::config::legacy()).ok()?;
            if b.len() < 8 {
                return None;
            }
            let announced = u64::from_le_bytes(b[0..8].try_into().unwrap()) as usize;
            // entries: key = 8-byte length + bytes of "c.r"; value (maps only) = one byte
            let mut pos = 8;
            let mut emitted = 0;
            while pos + 8 <= b.len() {
                let l = u64::from_le_bytes(b[pos..pos + 8].try_into().unwrap()) as usize;
                pos += 8 + l + if is_map { 1 } else { 0 };
                emitted += 1;
            }
            if pos != b.len() {
                emitted = usize::MAX / 2; // trailing garbage: not a whole number of entries
            }
            Some((b, announced, emitted))
        }
    }));
    r.ok().flatten()
}
