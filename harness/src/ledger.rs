//! Thread-local ledger of every instrumented object, plus the counting allocator.
//! No model logic lives here: the ledger only records what the code under test
//! does to the objects (creation, clone, drop, comparison) and flags uses that
//! are illegal for ANY correct container: destroying an object twice, or
//! touching an object that is dead / was never created (uninitialised memory).

use std::alloc::{GlobalAlloc, Layout, System};
use std::cell::{Cell, RefCell};
use std::collections::{HashMap, HashSet};

#[derive(Clone, Copy, PartialEq, Eq, Debug, Hash)]
pub enum Kind {
    K,
    V,
}

/// Payload of a panic injected by the harness into a user callback.
pub struct Injected;

#[derive(Default)]
pub struct Ledger {
    pub next: u32,
    pub alive: HashMap<u32, Kind>,
    pub dead: HashSet<u32>,
    /// objects destroyed since the last `mark`
    pub drops: Vec<(Kind, u32)>,
    /// (source serial, new serial) since the last `mark`
    pub clones: Vec<(u32, u32)>,
    /// values created by `Default` since the last `mark`
    pub defaults: Vec<u32>,
    /// illegal uses observed (never cleared by `mark`)
    pub viol: Vec<String>,
    /// number of user callbacks since the last `mark`
    pub cb: u64,
    /// inject a panic into callback number `panic_at` (1-based); 0 = never
    pub panic_at: u64,
    pub injected: bool,
    /// log of callbacks (kind, a, b) when enabled
    pub log_cb: bool,
    pub cb_log: Vec<(char, u32, u32)>,
    /// scripted outcomes of key comparisons (adversarial Eq); None = lawful
    pub eq_script: Option<Vec<bool>>,
    pub eq_pos: usize,
    /// comparisons asked beyond the end of the script (answered `eq_default`)
    pub eq_overrun: usize,
    pub eq_default: bool,
    pub eq_calls: u64,
    /// callbacks are counted / panics injected / comparisons scripted only while a
    /// measured call into the code under test is running
    pub in_call: bool,
}

thread_local! {
    static L: RefCell<Ledger> = RefCell::new(Ledger::default());
    static ARMED: Cell<bool> = const { Cell::new(false) };
    static ALLOCS: Cell<u64> = const { Cell::new(0) };
    /// live heap blocks of this thread (allocations minus deallocations), always counted
    static LIVE: Cell<i64> = const { Cell::new(0) };
}

thread_local! {
    /// while set, key comparisons skip every ledger check and callback (bulk filling / observation of
    /// very large containers by the harness itself, never during a measured call)
    static QUIET: Cell<bool> = const { Cell::new(false) };
}
pub fn is_quiet() -> bool {
    QUIET.try_with(|q| q.get()).unwrap_or(false)
}
pub struct Quiet(bool);
impl Quiet {
    pub fn new() -> Self {
        Quiet(QUIET.with(|q| q.replace(true)))
    }
}
impl Drop for Quiet {
    fn drop(&mut self) {
        QUIET.with(|q| q.set(self.0));
    }
}

pub fn live_blocks() -> i64 {
    LIVE.try_with(|c| c.get()).unwrap_or(0)
}

pub fn with<R>(f: impl FnOnce(&mut Ledger) -> R) -> R {
    let _s = Suspend::new();
    L.with(|l| f(&mut l.borrow_mut()))
}

pub fn reset() {
    with(|l| *l = Ledger { next: 1, log_cb: l.log_cb, ..Ledger::default() });
}

/// start of an observation window
pub fn mark() {
    with(|l| {
        l.drops.clear();
        l.clones.clear();
        l.defaults.clear();
        l.cb = 0;
        l.cb_log.clear();
        l.injected = false;
        l.eq_pos = 0;
        l.eq_overrun = 0;
    });
}

pub fn fresh(kind: Kind) -> u32 {
    with(|l| {
        if l.next == 0 {
            l.next = 1;
        }
        let s = l.next;
        l.next += 1;
        l.alive.insert(s, kind);
        s
    })
}

pub fn violation(msg: String) {
    with(|l| {
        if l.viol.len() < 64 {
            l.viol.push(msg)
        }
    });
}

pub fn is_alive(serial: u32, kind: Kind) -> bool {
    with(|l| l.alive.get(&serial) == Some(&kind))
}

/// Check that an object handed to a callback is a live object of the right kind.
pub fn check_use(what: &str, kind: Kind, magic_ok: bool, serial: u32) -> bool {
    with(|l| {
        let ok = magic_ok && l.alive.get(&serial) == Some(&kind);
        if !ok && l.viol.len() < 64 {
            let why = if !magic_ok {
                "not an initialised object (bad magic)"
            } else if l.dead.contains(&serial) {
                "already destroyed"
            } else {
                "unknown serial"
            };
            l.viol.push(format!("{what}: {kind:?}#{serial} used but {why}"));
        }
        ok
    })
}

/// Record the destruction of an object. Returns false if it was illegal.
pub fn on_drop(kind: Kind, magic_ok: bool, serial: u32) -> bool {
    with(|l| {
        if !magic_ok {
            if l.viol.len() < 64 {
                l.viol
                    .push(format!("drop: {kind:?}#{serial} destroyed but not an initialised object (bad magic)"));
            }
            return false;
        }
        match l.alive.remove(&serial) {
            Some(k) if k == kind => {
                l.dead.insert(serial);
                l.drops.push((kind, serial));
                true
            }
            other => {
                if let Some(k) = other {
                    l.alive.insert(serial, k);
                }
                if l.viol.len() < 64 {
                    let why = if l.dead.contains(&serial) { "destroyed twice" } else { "unknown serial" };
                    l.viol.push(format!("drop: {kind:?}#{serial} {why}"));
                }
                false
            }
        }
    })
}

/// A user callback is about to run. Returns true if the harness wants it to panic.
pub fn callback(kind: char, a: u32, b: u32) -> bool {
    with(|l| {
        if !l.in_call {
            return false;
        }
        l.cb += 1;
        if l.log_cb {
            l.cb_log.push((kind, a, b));
        }
        if l.panic_at != 0 && l.cb == l.panic_at && !l.injected && !std::thread::panicking() {
            l.injected = true;
            true
        } else {
            false
        }
    })
}

pub fn maybe_panic(kind: char, a: u32, b: u32) {
    if callback(kind, a, b) {
        std::panic::panic_any(Injected);
    }
}

/// outcome of a key comparison: lawful unless a script is installed
pub fn eq_outcome(lawful: bool) -> bool {
    with(|l| {
        l.eq_calls += 1;
        if !l.in_call {
            return lawful;
        }
        match &l.eq_script {
            None => lawful,
            Some(s) => {
                if l.eq_pos < s.len() {
                    let r = s[l.eq_pos];
                    l.eq_pos += 1;
                    r
                } else {
                    l.eq_pos += 1;
                    l.eq_overrun += 1;
                    l.eq_default
                }
            }
        }
    })
}

// ------------------------------------------------------------ allocator --

pub struct CountingAlloc;

unsafe impl GlobalAlloc for CountingAlloc {
    unsafe fn alloc(&self, layout: Layout) -> *mut u8 {
        note();
        System.alloc(layout)
    }
    unsafe fn dealloc(&self, ptr: *mut u8, layout: Layout) {
        let _ = LIVE.try_with(|c| c.set(c.get() - 1));
        System.dealloc(ptr, layout)
    }
    unsafe fn alloc_zeroed(&self, layout: Layout) -> *mut u8 {
        note();
        System.alloc_zeroed(layout)
    }
    unsafe fn realloc(&self, ptr: *mut u8, layout: Layout, new_size: usize) -> *mut u8 {
        note();
        let _ = LIVE.try_with(|c| c.set(c.get() - 1)); // one block before, one block after
        System.realloc(ptr, layout, new_size)
    }
}

#[inline]
fn note() {
    let _ = LIVE.try_with(|c| c.set(c.get() + 1));
    let _ = ARMED.try_with(|a| {
        if a.get() {
            let _ = ALLOCS.try_with(|c| c.set(c.get() + 1));
        }
    });
}

/// Disarms the allocation counter for the lifetime of the guard (harness-side work
/// that happens inside a measured call: ledger bookkeeping, harness closures).
pub struct Suspend(bool);
impl Suspend {
    pub fn new() -> Self {
        let was = ARMED.try_with(|a| a.replace(false)).unwrap_or(false);
        Suspend(was)
    }
}
impl Drop for Suspend {
    fn drop(&mut self) {
        let _ = ARMED.try_with(|a| a.set(self.0));
    }
}

pub fn arm() {
    with(|l| l.in_call = true);
    ALLOCS.with(|c| c.set(0));
    ARMED.with(|a| a.set(true));
}
pub fn disarm() -> u64 {
    ARMED.with(|a| a.set(false));
    with(|l| l.in_call = false);
    ALLOCS.with(|c| c.get())
}
