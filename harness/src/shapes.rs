//! The same TLC transitions replayed with other ELEMENT SHAPES than the instrumented
//! plain-old-data Key/Val: zero-sized, small Copy, heap-owning, large, and a type with an
//! observable Clone but no destructor (C03, C06, C15 quantify over element shapes).
//! Only what equality can see is compared (classes and value contents, panic / no panic,
//! len); object identity needs the instrumented type.  Heap-owning shapes turn an ownership
//! slip into a real double free / use after free (the process dies: reported as a crash).

use crate::cage::Cage;
use crate::ledger;
use crate::replay::{Fail, Report, Table};
use micromap::{Map, Set};
use serde_json::{json, Value};
use std::cell::Cell;
use std::panic::{catch_unwind, AssertUnwindSafe};

pub trait Shape {
    type K: PartialEq + Clone;
    type V: PartialEq + Clone;
    const NAME: &'static str;
    /// does handling elements of this shape allocate by itself?
    const ALLOCATES: bool;
    /// largest class / value content this shape can represent
    const MAX_CLASS: u8;
    const MAX_VAL: u8 = 255;
    fn k(class: u8) -> Self::K;
    fn v(content: u8) -> Self::V;
    fn kc(k: &Self::K) -> u8;
    fn vc(v: &Self::V) -> u8;
    fn set_v(v: &mut Self::V, content: u8);
    /// number of element objects of this shape currently alive (shapes that count them)
    fn live() -> i64 {
        0
    }
}

thread_local! {
    static TOKENS: Cell<i64> = const { Cell::new(0) };
}
/// a zero-sized object WITH a destructor (a token / guard): code that decides by `size_of` whether
/// something needs to be destroyed forgets these
pub struct Token;
impl Token {
    fn make() -> Token {
        TOKENS.with(|c| c.set(c.get() + 1));
        Token
    }
}
impl Drop for Token {
    fn drop(&mut self) {
        TOKENS.with(|c| c.set(c.get() - 1));
    }
}
impl Clone for Token {
    fn clone(&self) -> Token {
        Token::make()
    }
}
impl PartialEq for Token {
    fn eq(&self, _: &Token) -> bool {
        true
    }
}
pub struct TokenVal;
impl Shape for TokenVal {
    type K = u8;
    type V = Token;
    const NAME: &'static str = "zero-sized value with a destructor";
    const ALLOCATES: bool = false;
    const MAX_CLASS: u8 = 255;
    const MAX_VAL: u8 = 0;
    fn k(c: u8) -> u8 {
        c
    }
    fn v(_: u8) -> Token {
        Token::make()
    }
    fn kc(k: &u8) -> u8 {
        *k
    }
    fn vc(_: &Token) -> u8 {
        0
    }
    fn set_v(_: &mut Token, _: u8) {}
    fn live() -> i64 {
        TOKENS.with(|c| c.get())
    }
}
pub struct TokenKey;
impl Shape for TokenKey {
    type K = Token;
    type V = u8;
    const NAME: &'static str = "zero-sized key with a destructor";
    const ALLOCATES: bool = false;
    const MAX_CLASS: u8 = 0;
    fn k(_: u8) -> Token {
        Token::make()
    }
    fn v(c: u8) -> u8 {
        c
    }
    fn kc(_: &Token) -> u8 {
        0
    }
    fn vc(v: &u8) -> u8 {
        *v
    }
    fn set_v(v: &mut u8, c: u8) {
        *v = c
    }
    fn live() -> i64 {
        TOKENS.with(|c| c.get())
    }
}

pub struct Zst;
impl Shape for Zst {
    type K = ();
    type V = ();
    const NAME: &'static str = "zst";
    const ALLOCATES: bool = false;
    const MAX_CLASS: u8 = 0;
    const MAX_VAL: u8 = 0;
    fn k(_: u8) {}
    fn v(_: u8) {}
    fn kc(_: &()) -> u8 {
        0
    }
    fn vc(_: &()) -> u8 {
        0
    }
    fn set_v(_: &mut (), _: u8) {}
}

pub struct SmallCopy;
impl Shape for SmallCopy {
    type K = u8;
    type V = u8;
    const NAME: &'static str = "small-copy";
    const ALLOCATES: bool = false;
    const MAX_CLASS: u8 = 255;
    fn k(c: u8) -> u8 {
        c
    }
    fn v(c: u8) -> u8 {
        c
    }
    fn kc(k: &u8) -> u8 {
        *k
    }
    fn vc(v: &u8) -> u8 {
        *v
    }
    fn set_v(v: &mut u8, c: u8) {
        *v = c
    }
}

pub struct Heap;
impl Shape for Heap {
    type K = String;
    type V = Box<[u8; 24]>;
    const NAME: &'static str = "heap-owning";
    const ALLOCATES: bool = true;
    const MAX_CLASS: u8 = 255;
    fn k(c: u8) -> String {
        format!("key-{c:03}-padding-beyond-the-small-string-size")
    }
    fn v(c: u8) -> Box<[u8; 24]> {
        Box::new([c; 24])
    }
    fn kc(k: &String) -> u8 {
        k[4..7].parse().unwrap_or(255)
    }
    fn vc(v: &Box<[u8; 24]>) -> u8 {
        v[0]
    }
    fn set_v(v: &mut Box<[u8; 24]>, c: u8) {
        **v = [c; 24]
    }
}

/// a key without drop glue and a value that owns heap memory (and the other way round): code that
/// asks `needs_drop` about the wrong half of the pair leaks or double-frees only for these
pub struct PlainKeyOwnedVal;
impl Shape for PlainKeyOwnedVal {
    type K = u8;
    type V = Box<[u8; 24]>;
    const NAME: &'static str = "plain-key-owned-value";
    const ALLOCATES: bool = true;
    const MAX_CLASS: u8 = 255;
    fn k(c: u8) -> u8 {
        c
    }
    fn v(c: u8) -> Box<[u8; 24]> {
        Box::new([c; 24])
    }
    fn kc(k: &u8) -> u8 {
        *k
    }
    fn vc(v: &Box<[u8; 24]>) -> u8 {
        v[0]
    }
    fn set_v(v: &mut Box<[u8; 24]>, c: u8) {
        **v = [c; 24]
    }
}
pub struct OwnedKeyPlainVal;
impl Shape for OwnedKeyPlainVal {
    type K = String;
    type V = u8;
    const NAME: &'static str = "owned-key-plain-value";
    const ALLOCATES: bool = true;
    const MAX_CLASS: u8 = 255;
    fn k(c: u8) -> String {
        Heap::k(c)
    }
    fn v(c: u8) -> u8 {
        c
    }
    fn kc(k: &String) -> u8 {
        Heap::kc(k)
    }
    fn vc(v: &u8) -> u8 {
        *v
    }
    fn set_v(v: &mut u8, c: u8) {
        *v = c
    }
}

pub struct Large;
impl Shape for Large {
    type K = u32;
    type V = [u64; 64];
    const NAME: &'static str = "large";
    const ALLOCATES: bool = false;
    const MAX_CLASS: u8 = 255;
    fn k(c: u8) -> u32 {
        0xABCD_0000 | c as u32
    }
    fn v(c: u8) -> [u64; 64] {
        [c as u64; 64]
    }
    fn kc(k: &u32) -> u8 {
        (*k & 0xFF) as u8
    }
    fn vc(v: &[u64; 64]) -> u8 {
        if v.iter().all(|x| *x == v[0]) {
            v[0] as u8
        } else {
            254 // torn value
        }
    }
    fn set_v(v: &mut [u64; 64], c: u8) {
        *v = [c as u64; 64]
    }
}

/// a wide key (for sets the key is all there is)
pub struct WideKey;
impl Shape for WideKey {
    type K = [u64; 32];
    type V = u8;
    const NAME: &'static str = "wide-key";
    const ALLOCATES: bool = false;
    const MAX_CLASS: u8 = 255;
    fn k(c: u8) -> [u64; 32] {
        [0xABCD_0000 | c as u64; 32]
    }
    fn v(c: u8) -> u8 {
        c
    }
    fn kc(k: &[u64; 32]) -> u8 {
        if k.iter().all(|x| *x == k[0]) {
            (k[0] & 0xFF) as u8
        } else {
            254 // torn key
        }
    }
    fn vc(v: &u8) -> u8 {
        *v
    }
    fn set_v(v: &mut u8, c: u8) {
        *v = c
    }
}

/// ROOMY containers: the same transitions in a container far larger than the model's capacity (the
/// container VALUE is ~80-130 KiB, beyond any size threshold a "big container" code path might
/// use); only transitions whose outcome does not depend on the capacity (the model's container is
/// not full before the call and the call does not overflow)
pub const ROOMY_MAP: usize = 160;
pub const ROOMY_SET: usize = 320;
fn roomy_ok(t: &Value, n: usize) -> bool {
    let name = t["o"]["name"].as_str().unwrap_or("");
    if matches!(name, "from_array" | "s_from_array") {
        return false;
    }
    let adding = matches!(name, "insert" | "insert_key_value" | "checked_insert" | "s_insert" | "s_replace" | "from_iter" | "s_from_iter" | "s_extend");
    let full = t["s"].as_array().map(|a| a.len()).unwrap_or(0) >= n;
    let refused = t["r"][0] == "panic" || t["r"]["r"] == "panic";
    !(adding && (full || refused))
}

thread_local! {
    static CLONES: Cell<u64> = const { Cell::new(0) };
}
/// Clone is observable (counted), there is no destructor: `needs_drop` is false
#[derive(PartialEq)]
pub struct Counted(pub u8);
impl Clone for Counted {
    fn clone(&self) -> Self {
        CLONES.with(|c| c.set(c.get() + 1));
        Counted(self.0)
    }
}
pub struct NoDropClone;
impl Shape for NoDropClone {
    type K = Counted;
    type V = Counted;
    const NAME: &'static str = "counted-clone-no-drop";
    const ALLOCATES: bool = false;
    const MAX_CLASS: u8 = 255;
    fn k(c: u8) -> Counted {
        Counted(c)
    }
    fn v(c: u8) -> Counted {
        Counted(c)
    }
    fn kc(k: &Counted) -> u8 {
        k.0
    }
    fn vc(v: &Counted) -> u8 {
        v.0
    }
    fn set_v(v: &mut Counted, c: u8) {
        v.0 = c
    }
}

/// equal keys are distinguishable (version), and there is no destructor anywhere
#[derive(Clone, Copy)]
pub struct Tagged {
    pub class: u8,
    pub ver: u8,
}
impl PartialEq for Tagged {
    fn eq(&self, o: &Tagged) -> bool {
        self.class == o.class
    }
}

/// stored-key identity (C12) for key types without drop glue: which version is stored / handed back
fn edge_tagged<const N: usize>(t: &Value, line: usize, rep: &mut Report) {
    let op = &t["o"];
    let name = op["name"].as_str().unwrap();
    if !matches!(name, "insert" | "insert_key_value" | "checked_insert" | "from_iter" | "from_array") {
        return;
    }
    let mut fails: Vec<Fail> = vec![];
    let mut m = Cage::new(Map::<Tagged, u8, N>::new());
    for e in t["s"].as_array().unwrap() {
        m.m.insert(Tagged { class: e[0].as_u64().unwrap() as u8, ver: e[1].as_u64().unwrap() as u8 }, e[2].as_u64().unwrap() as u8);
    }
    let k = Tagged { class: op["k"]["c"].as_u64().unwrap_or(0) as u8, ver: op["k"]["r"].as_u64().unwrap_or(0) as u8 };
    let v = op["v"]["v"].as_u64().unwrap_or(0) as u8;
    let mm = &mut m.m;
    let mut alloc = 0u64;
    let done = match name {
        "insert" => measured(&mut alloc, || {
            mm.insert(k, v);
        }),
        "insert_key_value" => measured(&mut alloc, || {
            mm.insert_key_value(k, v);
        }),
        "checked_insert" => measured(&mut alloc, || {
            mm.checked_insert(k, v);
        }),
        _ => {
            let items: Vec<(Tagged, u8)> = op["items"]
                .as_array()
                .unwrap()
                .iter()
                .map(|it| (Tagged { class: it["k"]["c"].as_u64().unwrap() as u8, ver: it["k"]["r"].as_u64().unwrap() as u8 }, it["v"]["v"].as_u64().unwrap() as u8))
                .collect();
            if name == "from_array" {
                let mut it = items.into_iter();
                let arr: [(Tagged, u8); N] = std::array::from_fn(|_| it.next().unwrap());
                measured(&mut alloc, || {
                    *mm = Map::from(arr);
                })
            } else {
                measured(&mut alloc, || {
                    *mm = items.into_iter().collect();
                })
            }
        }
    };
    if done.is_some() && m.intact() && m.m.len() <= N {
        let mut obs: Vec<(u8, u8, u8)> = m.m.iter().map(|(k, v)| (k.class, k.ver, *v)).collect();
        obs.sort();
        let mut exp: Vec<(u8, u8, u8)> =
            t["p"].as_array().unwrap().iter().map(|e| (e[1].as_u64().unwrap() as u8, e[2].as_u64().unwrap() as u8, e[4].as_u64().unwrap() as u8)).collect();
        exp.sort();
        if obs != exp {
            let same_content = obs.iter().map(|x| (x.0, x.2)).collect::<Vec<_>>() == exp.iter().map(|x| (x.0, x.2)).collect::<Vec<_>>();
            fails.push(Fail {
                props: if same_content { "C12".into() } else { crate::replay::op_props(op, false, &t["r"]) },
                msg: format!("[plain-tagged, no drop glue] stored (class, version, value): observed {obs:?}, the model says {exp:?}"),
            });
        }
    } else if !m.intact() || m.m.len() > N {
        std::mem::forget(m);
        finish(t, line, vec![Fail { props: "C03,C05".into(), msg: "[plain-tagged] memory outside the container was written".into() }], rep);
        return;
    }
    finish(t, line, fails, rep);
}

/// Lookups through an UNSIZED borrowed form whose equality is coarser than its bytes (C01 / C07:
/// "lookups through a borrowed form of the key answer exactly like lookups by the key itself"):
/// keys are `PathBuf`s, the probe is a `&Path` that spells the same path with a doubled separator
/// (equal component-wise, different length).
fn dst_key(c: u8) -> std::path::PathBuf {
    std::path::PathBuf::from(format!("k{c}/x"))
}
fn dst_probe(c: u8) -> std::path::PathBuf {
    std::path::PathBuf::from(format!("k{c}//x/"))
}
fn dst_class(k: &std::path::Path) -> u8 {
    k.components().next().and_then(|c| c.as_os_str().to_str()).and_then(|s| s[1..].parse().ok()).unwrap_or(255)
}
fn edge_dst<const N: usize>(t: &Value, line: usize, rep: &mut Report) {
    use std::path::{Path, PathBuf};
    let op = &t["o"];
    let name = op["name"].as_str().unwrap();
    if !matches!(name, "get" | "get_key_value" | "contains_key" | "get_mut" | "index" | "index_mut" | "remove" | "remove_entry") {
        return;
    }
    let mut fails: Vec<Fail> = vec![];
    let mut cage = Cage::new(Map::<PathBuf, u8, N>::new());
    for e in t["s"].as_array().unwrap() {
        cage.m.insert(dst_key(e[0].as_u64().unwrap() as u8), e[2].as_u64().unwrap() as u8);
    }
    let c = op["c"].as_u64().unwrap_or(0) as u8;
    let w = op["w"].as_i64().unwrap_or(99);
    let owned = dst_probe(c);
    let probe: &Path = owned.as_path();
    let m = &mut cage.m;
    let mut allocs = 0u64;
    let obs: Value = match name {
        "get" => match measured(&mut allocs, || m.get(probe).copied()) {
            None => json!(["panic"]),
            Some(None) => json!(["none"]),
            Some(Some(v)) => json!(["val", v]),
        },
        "get_key_value" => match measured(&mut allocs, || m.get_key_value(probe).map(|(k, v)| (dst_class(k), *v))) {
            None => json!(["panic"]),
            Some(None) => json!(["none"]),
            Some(Some((k, v))) => json!(["ent", k, v]),
        },
        "contains_key" => match measured(&mut allocs, || m.contains_key(probe)) {
            None => json!(["panic"]),
            Some(b) => json!(["b", b]),
        },
        "get_mut" => match measured(&mut allocs, || {
            m.get_mut(probe).map(|v| {
                let o = *v;
                if w != 99 {
                    *v = w as u8;
                }
                o
            })
        }) {
            None => json!(["panic"]),
            Some(None) => json!(["none"]),
            Some(Some(v)) => json!(["val", v]),
        },
        "index" => match measured(&mut allocs, || m[probe]) {
            None => json!(["panic"]),
            Some(v) => json!(["val", v]),
        },
        "index_mut" => match measured(&mut allocs, || {
            let v = &mut m[probe];
            let o = *v;
            if w != 99 {
                *v = w as u8;
            }
            o
        }) {
            None => json!(["panic"]),
            Some(v) => json!(["val", v]),
        },
        "remove" => match measured(&mut allocs, || m.remove(probe)) {
            None => json!(["panic"]),
            Some(None) => json!(["none"]),
            Some(Some(v)) => json!(["val", v]),
        },
        _ => match measured(&mut allocs, || m.remove_entry(probe)) {
            None => json!(["panic"]),
            Some(None) => json!(["none"]),
            Some(Some((k, v))) => json!(["ent", dst_class(&k), v]),
        },
    };
    let exp = content_of(&t["r"]);
    if obs != exp {
        fails.push(Fail {
            props: crate::replay::op_props(op, false, &t["r"]),
            msg: format!("[PathBuf keys looked up by an equal &Path of another length] return value: observed {obs}, the model says {exp}"),
        });
    }
    let mut post: Vec<(u8, u8)> = cage.m.iter().map(|(k, v)| (dst_class(k), *v)).collect();
    post.sort();
    if post != post_of(&t["p"]) {
        fails.push(Fail {
            props: crate::replay::op_props(op, false, &t["r"]),
            msg: format!("[PathBuf keys looked up by an equal &Path of another length] content afterwards: observed {post:?}, the model says {:?}", post_of(&t["p"])),
        });
    }
    finish(t, line, fails, rep);
}
fn edge_dst_set<const N: usize>(t: &Value, line: usize, rep: &mut Report) {
    use std::path::{Path, PathBuf};
    let op = &t["o"];
    let name = op["name"].as_str().unwrap();
    if !matches!(name, "s_contains" | "s_get" | "s_remove" | "s_take") {
        return;
    }
    let mut fails: Vec<Fail> = vec![];
    let mut cage = Cage::new(Set::<PathBuf, N>::new());
    for e in t["s"].as_array().unwrap() {
        cage.m.insert(dst_key(e[0].as_u64().unwrap() as u8));
    }
    let c = op["c"].as_u64().unwrap_or(0) as u8;
    let owned = dst_probe(c);
    let probe: &Path = owned.as_path();
    let m = &mut cage.m;
    let mut allocs = 0u64;
    let obs: Value = match name {
        "s_contains" => match measured(&mut allocs, || m.contains(probe)) {
            None => json!(["panic"]),
            Some(b) => json!(["b", b]),
        },
        "s_get" => match measured(&mut allocs, || m.get(probe).map(|k| dst_class(k))) {
            None => json!(["panic"]),
            Some(None) => json!(["none"]),
            Some(Some(k)) => json!(["key", k]),
        },
        "s_remove" => match measured(&mut allocs, || m.remove(probe)) {
            None => json!(["panic"]),
            Some(b) => json!(["b", b]),
        },
        _ => match measured(&mut allocs, || m.take(probe)) {
            None => json!(["panic"]),
            Some(None) => json!(["none"]),
            Some(Some(k)) => json!(["key", dst_class(&k)]),
        },
    };
    let exp = content_of(&t["r"]);
    if obs != exp {
        fails.push(Fail {
            props: crate::replay::op_props(op, false, &t["r"]),
            msg: format!("[PathBuf elements looked up by an equal &Path of another length] return value: observed {obs}, the model says {exp}"),
        });
    }
    let mut post: Vec<u8> = cage.m.iter().map(|k| dst_class(k)).collect();
    post.sort();
    let mut want: Vec<u8> = t["p"].as_array().unwrap().iter().map(|e| e[1].as_u64().unwrap() as u8).collect();
    want.sort();
    if post != want {
        fails.push(Fail {
            props: crate::replay::op_props(op, false, &t["r"]),
            msg: format!("[PathBuf elements looked up by an equal &Path of another length] content afterwards: observed {post:?}, the model says {want:?}"),
        });
    }
    finish(t, line, fails, rep);
}

/// Keys whose equality is NOT reflexive (`f64`, class 0 is NaN) probed through a reference that
/// ALIASES the stored key (taken from `keys()`): `K: PartialEq` is all the crate asks for, so every
/// lookup must answer by `==` alone - a NaN key is never found, by any lookup method, and all of
/// them agree with one another (C01 / C07); ordinary keys are found as the model says.
fn flt(c: u8) -> f64 {
    if c == 0 {
        f64::NAN
    } else {
        c as f64
    }
}
fn edge_alias<const N: usize>(t: &Value, line: usize, rep: &mut Report) {
    let op = &t["o"];
    let name = op["name"].as_str().unwrap();
    if !matches!(name, "get" | "get_key_value" | "contains_key" | "s_contains" | "s_get") {
        return;
    }
    let set_mode = name.starts_with("s_");
    let c = op["c"].as_u64().unwrap_or(0) as u8;
    let mut fails: Vec<Fail> = vec![];
    let mut m = Map::<f64, u8, N>::new();
    let mut st = Set::<f64, N>::new();
    for e in t["s"].as_array().unwrap() {
        let k = flt(e[0].as_u64().unwrap() as u8);
        if set_mode {
            st.insert(k);
        } else {
            m.insert(k, e[2].as_u64().unwrap() as u8);
        }
    }
    let stored_here = t["s"].as_array().unwrap().iter().any(|e| e[0].as_u64().unwrap() as u8 == c);
    let same = |k: &f64| k.to_bits() == flt(c).to_bits();
    let answers: Option<Vec<bool>> = catch_unwind(AssertUnwindSafe(|| {
        if set_mode {
            match st.iter().find(|k| same(k)) {
                Some(r) => vec![st.contains(r), st.get(r).is_some(), st.is_superset(&Set::<f64, 1>::from([*r]))],
                None => vec![],
            }
        } else {
            match m.keys().find(|k| same(k)) {
                Some(r) => vec![m.contains_key(r), m.get(r).is_some(), m.get_key_value(r).is_some(), m.iter().any(|(k, _)| k == r)],
                None => vec![],
            }
        }
    }))
    .ok();
    match answers {
        None => fails.push(Fail { props: if set_mode { "C07".into() } else { "C01".into() }, msg: "[f64 keys] a lookup through a reference to the stored key panicked".into() }),
        Some(a) if !a.is_empty() => {
            let want = stored_here && c != 0; // a NaN is never equal to anything, itself included
            if a.iter().any(|x| *x != want) {
                fails.push(Fail {
                    props: if set_mode { "C07".into() } else { "C01".into() },
                    msg: format!("[f64 keys, class {c}{}] lookups through a reference that aliases the stored key answer {a:?} (contains, get, get_key_value / superset, by ==); equality says {want}", if c == 0 { " = NaN" } else { "" }),
                });
            }
        }
        _ => {}
    }
    finish(t, line, fails, rep);
}

/// the same for sets of plain tagged elements; every other extend goes through `impl Extend<&T>`
fn edge_tagged_set<const N: usize>(t: &Value, line: usize, rep: &mut Report) {
    let op = &t["o"];
    let name = op["name"].as_str().unwrap();
    if !matches!(name, "s_insert" | "s_replace" | "s_extend" | "s_from_iter" | "s_from_array") {
        return;
    }
    let mut fails: Vec<Fail> = vec![];
    let mut m = Cage::new(Set::<Tagged, N>::new());
    for e in t["s"].as_array().unwrap() {
        m.m.insert(Tagged { class: e[0].as_u64().unwrap() as u8, ver: e[1].as_u64().unwrap() as u8 });
    }
    let k = Tagged { class: op["k"]["c"].as_u64().unwrap_or(0) as u8, ver: op["k"]["r"].as_u64().unwrap_or(0) as u8 };
    let items: Vec<Tagged> = op["items"]
        .as_array()
        .map(|a| a.iter().map(|it| Tagged { class: it["k"]["c"].as_u64().unwrap() as u8, ver: it["k"]["r"].as_u64().unwrap() as u8 }).collect())
        .unwrap_or_default();
    let mm = &mut m.m;
    let mut alloc = 0u64;
    let done = match name {
        "s_insert" => measured(&mut alloc, || {
            mm.insert(k);
        }),
        "s_replace" => measured(&mut alloc, || {
            mm.replace(k);
        }),
        "s_extend" if line % 2 == 0 => measured(&mut alloc, || mm.extend(items.iter())),
        "s_extend" => measured(&mut alloc, || mm.extend(items)),
        "s_from_iter" => measured(&mut alloc, || {
            *mm = items.into_iter().collect();
        }),
        _ => {
            let mut it = items.into_iter();
            let arr: [Tagged; N] = std::array::from_fn(|_| it.next().unwrap());
            measured(&mut alloc, || {
                *mm = Set::from(arr);
            })
        }
    };
    if !m.intact() || m.m.len() > N {
        std::mem::forget(m);
        finish(t, line, vec![Fail { props: "C03,C05".into(), msg: "[plain-tagged set] memory outside the container was written".into() }], rep);
        return;
    }
    if done.is_some() || name == "s_extend" {
        // (an extend that overflows keeps what it had inserted before the panic: the model's post-state says so too)
        let mut obs: Vec<(u8, u8)> = m.m.iter().map(|k| (k.class, k.ver)).collect();
        obs.sort();
        let mut exp: Vec<(u8, u8)> = t["p"].as_array().unwrap().iter().map(|e| (e[1].as_u64().unwrap() as u8, e[2].as_u64().unwrap() as u8)).collect();
        exp.sort();
        if obs != exp {
            let same_content = obs.iter().map(|x| x.0).collect::<Vec<_>>() == exp.iter().map(|x| x.0).collect::<Vec<_>>();
            fails.push(Fail {
                props: if same_content { "C12".into() } else { crate::replay::op_props(op, false, &t["r"]) },
                msg: format!("[plain-tagged set, no drop glue] stored (class, version): observed {obs:?}, the model says {exp:?}"),
            });
        }
    }
    finish(t, line, fails, rep);
}

fn measured<R>(allocs: &mut u64, f: impl FnOnce() -> R) -> Option<R> {
    ledger::arm();
    let r = catch_unwind(AssertUnwindSafe(f));
    let n = ledger::disarm();
    match r {
        Ok(v) => {
            *allocs += n;
            Some(v)
        }
        Err(p) => {
            drop(p);
            None
        }
    }
}

/// what equality can see of a model return value
fn content_of(r: &Value) -> Value {
    match r {
        Value::Array(a) if !a.is_empty() && a[0].is_string() => match a[0].as_str().unwrap() {
            "val" | "some_val" => json!([a[0], a[2]]),
            "key" => json!(["key", a[2]]),
            "ent" => json!(["ent", a[2], a[5]]),
            _ => r.clone(),
        },
        o => o.clone(),
    }
}
fn post_of(p: &Value) -> Vec<(u8, u8)> {
    let mut v: Vec<(u8, u8)> = p.as_array().unwrap().iter().map(|e| (e[1].as_u64().unwrap() as u8, e[4].as_u64().unwrap() as u8)).collect();
    v.sort();
    v
}

fn supported(name: &str) -> bool {
    matches!(
        name,
        "insert" | "insert_key_value" | "checked_insert" | "insert_unchecked" | "get" | "get_key_value" | "contains_key" | "get_mut" | "index" | "index_mut" | "remove"
            | "remove_entry" | "retain" | "clear" | "from_iter" | "from_array" | "clone" | "drain" | "cursor" | "s_insert" | "s_replace" | "s_contains" | "s_get" | "s_remove"
            | "s_take" | "s_retain" | "s_clear" | "s_extend" | "s_from_iter" | "s_from_array"
    )
}

fn max_class(t: &Value) -> u8 {
    let mut m = 0u8;
    for e in t["s"].as_array().unwrap() {
        m = m.max(e[0].as_u64().unwrap() as u8);
    }
    let o = &t["o"];
    for f in ["c"] {
        if let Some(c) = o[f].as_u64() {
            m = m.max(c as u8);
        }
    }
    if let Some(c) = o["k"]["c"].as_u64() {
        m = m.max(c as u8);
    }
    if let Some(items) = o["items"].as_array() {
        for it in items {
            m = m.max(it["k"]["c"].as_u64().unwrap_or(0) as u8);
        }
    }
    m
}

fn max_val(t: &Value) -> u8 {
    let mut m = 0u8;
    for e in t["s"].as_array().unwrap() {
        m = m.max(e[2].as_u64().unwrap() as u8);
    }
    let o = &t["o"];
    if let Some(v) = o["v"]["v"].as_u64() {
        m = m.max(v as u8);
    }
    if let Some(w) = o["w"].as_u64() {
        if w != 99 {
            m = m.max(w as u8);
        }
    }
    if let Some(items) = o["items"].as_array() {
        for it in items {
            m = m.max(it["v"]["v"].as_u64().unwrap_or(0) as u8);
        }
    }
    m
}

fn edge_map<S: Shape, const N: usize>(t: &Value, line: usize, rep: &mut Report) {
    let op = &t["o"];
    let name = op["name"].as_str().unwrap();
    if name == "cursor" && !(op["kind"].as_str().unwrap_or("").starts_with("into_") && op["end"] == "drop" && op["fin"] == "none") {
        return;
    }
    if name == "drain" && !(op["end"] == "drop" && op["fin"] == "none") {
        return;
    }
    let mut fails: Vec<Fail> = Vec::with_capacity(4);
    let mut allocs = 0u64;
    let live0 = ledger::live_blocks();
    let tok0 = S::live();
    let mut cage = Cage::new(Map::<S::K, S::V, N>::new());
    for e in t["s"].as_array().unwrap() {
        cage.m.insert(S::k(e[0].as_u64().unwrap() as u8), S::v(e[2].as_u64().unwrap() as u8));
    }
    let c = op["c"].as_u64().unwrap_or(0) as u8;
    let w = op["w"].as_i64().unwrap_or(99);
    let kc = op["k"]["c"].as_u64().unwrap_or(0) as u8;
    let vc = op["v"]["v"].as_u64().unwrap_or(0) as u8;
    let m = &mut cage.m;
    let probe = S::k(c);
    let obs: Value = match name {
        "insert" => match measured(&mut allocs, || m.insert(S::k(kc), S::v(vc))) {
            None => json!(["panic"]),
            Some(None) => json!(["none"]),
            Some(Some(v)) => json!(["val", S::vc(&v)]),
        },
        // (the model only generates calls inside the contract: the key is present or there is room)
        "insert_unchecked" => match measured(&mut allocs, || unsafe { m.insert_unchecked(S::k(kc), S::v(vc)) }) {
            None => json!(["panic"]),
            Some(None) => json!(["none"]),
            Some(Some(v)) => json!(["val", S::vc(&v)]),
        },
        "insert_key_value" => match measured(&mut allocs, || m.insert_key_value(S::k(kc), S::v(vc))) {
            None => json!(["panic"]),
            Some(None) => json!(["none"]),
            Some(Some((k, v))) => json!(["ent", S::kc(&k), S::vc(&v)]),
        },
        "checked_insert" => match measured(&mut allocs, || m.checked_insert(S::k(kc), S::v(vc))) {
            None => json!(["panic"]),
            Some(None) => json!(["none"]),
            Some(Some(None)) => json!(["some_none"]),
            Some(Some(Some(v))) => json!(["some_val", S::vc(&v)]),
        },
        "get" => match measured(&mut allocs, || m.get(&probe).map(|v| S::vc(v))) {
            None => json!(["panic"]),
            Some(None) => json!(["none"]),
            Some(Some(v)) => json!(["val", v]),
        },
        "get_key_value" => match measured(&mut allocs, || m.get_key_value(&probe).map(|(k, v)| (S::kc(k), S::vc(v)))) {
            None => json!(["panic"]),
            Some(None) => json!(["none"]),
            Some(Some((k, v))) => json!(["ent", k, v]),
        },
        "contains_key" => match measured(&mut allocs, || m.contains_key(&probe)) {
            None => json!(["panic"]),
            Some(b) => json!(["b", b]),
        },
        "get_mut" => match measured(&mut allocs, || {
            m.get_mut(&probe).map(|v| {
                let o = S::vc(v);
                if w != 99 {
                    S::set_v(v, w as u8);
                }
                o
            })
        }) {
            None => json!(["panic"]),
            Some(None) => json!(["none"]),
            Some(Some(v)) => json!(["val", v]),
        },
        "index" => match measured(&mut allocs, || S::vc(&m[&probe])) {
            None => json!(["panic"]),
            Some(v) => json!(["val", v]),
        },
        "index_mut" => match measured(&mut allocs, || {
            let v = &mut m[&probe];
            let o = S::vc(v);
            if w != 99 {
                S::set_v(v, w as u8);
            }
            o
        }) {
            None => json!(["panic"]),
            Some(v) => json!(["val", v]),
        },
        "remove" => match measured(&mut allocs, || m.remove(&probe)) {
            None => json!(["panic"]),
            Some(None) => json!(["none"]),
            Some(Some(v)) => json!(["val", S::vc(&v)]),
        },
        "remove_entry" => match measured(&mut allocs, || m.remove_entry(&probe)) {
            None => json!(["panic"]),
            Some(None) => json!(["none"]),
            Some(Some((k, v))) => json!(["ent", S::kc(&k), S::vc(&v)]),
        },
        "retain" => {
            let keep: Vec<u8> = op["keep"].as_array().unwrap().iter().map(|x| x.as_u64().unwrap() as u8).collect();
            match measured(&mut allocs, || {
                m.retain(|k, v| {
                    if w != 99 {
                        S::set_v(v, w as u8);
                    }
                    keep.contains(&S::kc(k))
                })
            }) {
                None => json!(["panic"]),
                Some(()) => json!(["unit"]),
            }
        }
        "clear" => match measured(&mut allocs, || m.clear()) {
            None => json!(["panic"]),
            Some(()) => json!(["unit"]),
        },
        "drain" | "cursor" => {
            // n items are taken and dropped, then the cursor is dropped: every element of the container
            // must have been released exactly once by then (the live-block balance below), nothing twice
            let n = op["n"].as_u64().unwrap_or(0) as usize;
            let taken = if name == "drain" {
                measured(&mut allocs, || {
                    let mut d = m.drain();
                    let mut c = 0;
                    for _ in 0..n {
                        if d.next().is_some() {
                            c += 1;
                        }
                    }
                    c
                })
            } else {
                let mm = std::mem::take(m);
                match op["kind"].as_str().unwrap() {
                    "into_iter" => measured(&mut allocs, || mm.into_iter().take(n).count()),
                    "into_keys" => measured(&mut allocs, || mm.into_keys().take(n).count()),
                    _ => measured(&mut allocs, || mm.into_values().take(n).count()),
                }
            };
            if taken != Some(n) {
                fails.push(Fail { props: "C10".into(), msg: format!("[{}] {name}: took {taken:?} items, asked for {n}", S::NAME) });
            }
            if !m.is_empty() {
                fails.push(Fail { props: "C10".into(), msg: format!("[{}] the container is not empty after {name}", S::NAME) });
            }
            Value::Null
        }
        "from_iter" => {
            let items: Vec<(S::K, S::V)> = op["items"]
                .as_array()
                .unwrap()
                .iter()
                .map(|it| (S::k(it["k"]["c"].as_u64().unwrap() as u8), S::v(it["v"]["v"].as_u64().unwrap() as u8)))
                .collect();
            let n = items.len();
            match measured(&mut allocs, || items.into_iter().collect::<Map<S::K, S::V, N>>()) {
                None => json!({"r": "panic"}),
                Some(mp) => {
                    *m = mp;
                    json!({"r": "ok", "pulled": n})
                }
            }
        }
        "clone" => {
            // every stored key and value is cloned exactly once, whatever the element type (C15)
            let before = CLONES.with(|c| c.get());
            let len = m.len();
            match measured(&mut allocs, || m.clone()) {
                None => json!(["panic"]),
                Some(cp) => {
                    let made = CLONES.with(|c| c.get()) - before;
                    if S::NAME == NoDropClone::NAME && made != 2 * len as u64 {
                        fails.push(Fail { props: "C15".into(), msg: format!("[{}] clone() of {len} pairs called Clone::clone {made} times, expected {}", S::NAME, 2 * len) });
                    }
                    let mut a: Vec<(u8, u8)> = cp.iter().map(|(k, v)| (S::kc(k), S::vc(v))).collect();
                    let mut b: Vec<(u8, u8)> = m.iter().map(|(k, v)| (S::kc(k), S::vc(v))).collect();
                    a.sort();
                    b.sort();
                    // (== is user-visible API of its own: it must not panic for any element shape)
                    let same = measured(&mut allocs, || cp == *m && *m == cp && !(cp != *m));
                    if same.is_none() {
                        fails.push(Fail { props: "C14".into(), msg: format!("[{}] comparing a container with its clone panicked", S::NAME) });
                    }
                    if a != b || same == Some(false) {
                        fails.push(Fail { props: "C14,C15".into(), msg: format!("[{}] the clone holds {a:?}, the original {b:?}; equal: {same:?}", S::NAME) });
                    }
                    Value::Null // the instrumented run compares the rest
                }
            }
        }
        _ => Value::Null,
    };
    let len = cage.m.len();
    if !cage.intact() || len > N || cage.m.capacity() != N {
        fails.push(Fail { props: "C03,C05".into(), msg: format!("[{}] memory outside the container was written or len() = {len} exceeds capacity {N}", S::NAME) });
        std::mem::forget(cage);
        finish(t, line, fails, rep);
        return;
    }
    if !obs.is_null() {
        let exp = content_of(&t["r"]);
        let exp = if name == "from_iter" && exp["r"] == "panic" { json!({"r": "panic"}) } else { exp };
        if obs != exp {
            fails.push(Fail { props: crate::replay::op_props(op, t["s"].as_array().unwrap().len() >= N, &t["r"]), msg: format!("[{}] return value: observed {obs}, the model says {exp}", S::NAME) });
        }
        let mut post: Vec<(u8, u8)> = cage.m.iter().map(|(k, v)| (S::kc(k), S::vc(v))).collect();
        post.sort();
        if post != post_of(&t["p"]) {
            fails.push(Fail { props: crate::replay::op_props(op, false, &t["r"]), msg: format!("[{}] content afterwards: observed {post:?}, the model says {:?}", S::NAME, post_of(&t["p"])) });
        }
        if len != post.len() || cage.m.is_empty() != (len == 0) {
            fails.push(Fail { props: "C05".into(), msg: format!("[{}] len() = {len} but iteration yields {} entries", S::NAME, post.len()) });
        }
    }
    if !S::ALLOCATES && allocs > 0 {
        fails.push(Fail { props: "C06".into(), msg: format!("[{}] {allocs} allocator call(s) inside a non-panicking container call ({name})", S::NAME) });
    }
    drop(obs);
    drop(cage);
    drop(probe);
    // everything the edge created is gone: with heap-owning elements the number of live heap blocks
    // is back where it started unless an element was leaked (fewer frees) or freed twice (the process
    // would normally have died already)
    let live1 = ledger::live_blocks();
    if S::ALLOCATES && live1 != live0 && fails.is_empty() {
        fails.push(Fail { props: "C02".into(), msg: format!("[{}] {} heap block(s) still live after {name} and the drop of the container: elements were leaked", S::NAME, live1 - live0) });
    }
    let tok1 = S::live();
    if tok1 != tok0 && fails.is_empty() {
        fails.push(Fail {
            props: "C02".into(),
            msg: if tok1 > tok0 {
                format!("[{}] {} element object(s) still alive after {name} and the drop of the container: neither handed out nor destroyed", S::NAME, tok1 - tok0)
            } else {
                format!("[{}] {} more element object(s) destroyed than created during {name}", S::NAME, tok0 - tok1)
            },
        });
    }
    finish(t, line, fails, rep);
}

fn edge_set<S: Shape, const N: usize>(t: &Value, line: usize, rep: &mut Report)
where
    S::K: Copy,
{
    edge_set_inner::<S, N>(t, line, rep, true)
}

fn edge_set_nocopy<S: Shape, const N: usize>(t: &Value, line: usize, rep: &mut Report) {
    edge_set_generic::<S, N>(t, line, rep, &mut |m, items, allocs| measured(allocs, || m.extend(items)))
}

fn edge_set_inner<S: Shape, const N: usize>(t: &Value, line: usize, rep: &mut Report, by_ref: bool)
where
    S::K: Copy,
{
    // Copy elements: every other extend goes through `impl Extend<&T>`
    let use_ref = by_ref && line % 2 == 0;
    edge_set_generic::<S, N>(t, line, rep, &mut |m, items, allocs| {
        if use_ref {
            measured(allocs, || m.extend(items.iter()))
        } else {
            measured(allocs, || m.extend(items))
        }
    })
}

#[allow(clippy::type_complexity)]
fn edge_set_generic<S: Shape, const N: usize>(
    t: &Value,
    line: usize,
    rep: &mut Report,
    extend: &mut dyn FnMut(&mut Set<S::K, N>, Vec<S::K>, &mut u64) -> Option<()>,
) {
    let op = &t["o"];
    let name = op["name"].as_str().unwrap();
    let mut fails: Vec<Fail> = vec![];
    let mut allocs = 0u64;
    let tok0 = S::live();
    let mut cage = Cage::new(Set::<S::K, N>::new());
    for e in t["s"].as_array().unwrap() {
        cage.m.insert(S::k(e[0].as_u64().unwrap() as u8));
    }
    let c = op["c"].as_u64().unwrap_or(0) as u8;
    let kc = op["k"]["c"].as_u64().unwrap_or(0) as u8;
    let m = &mut cage.m;
    let probe = S::k(c);
    let obs: Value = match name {
        "s_insert" => match measured(&mut allocs, || m.insert(S::k(kc))) {
            None => json!(["panic"]),
            Some(b) => json!(["b", b]),
        },
        "s_replace" => match measured(&mut allocs, || m.replace(S::k(kc))) {
            None => json!(["panic"]),
            Some(None) => json!(["none"]),
            Some(Some(k)) => json!(["key", S::kc(&k)]),
        },
        "s_contains" => match measured(&mut allocs, || m.contains(&probe)) {
            None => json!(["panic"]),
            Some(b) => json!(["b", b]),
        },
        "s_get" => match measured(&mut allocs, || m.get(&probe).map(|k| S::kc(k))) {
            None => json!(["panic"]),
            Some(None) => json!(["none"]),
            Some(Some(k)) => json!(["key", k]),
        },
        "s_remove" => match measured(&mut allocs, || m.remove(&probe)) {
            None => json!(["panic"]),
            Some(b) => json!(["b", b]),
        },
        "s_take" => match measured(&mut allocs, || m.take(&probe)) {
            None => json!(["panic"]),
            Some(None) => json!(["none"]),
            Some(Some(k)) => json!(["key", S::kc(&k)]),
        },
        "s_retain" => {
            let keep: Vec<u8> = op["keep"].as_array().unwrap().iter().map(|x| x.as_u64().unwrap() as u8).collect();
            match measured(&mut allocs, || m.retain(|k| keep.contains(&S::kc(k)))) {
                None => json!(["panic"]),
                Some(()) => json!(["unit"]),
            }
        }
        "s_clear" => match measured(&mut allocs, || m.clear()) {
            None => json!(["panic"]),
            Some(()) => json!(["unit"]),
        },
        "clone" => {
            match measured(&mut allocs, || m.clone()) {
                None => {
                    fails.push(Fail { props: "C15".into(), msg: format!("[{}] clone() of a set panicked", S::NAME) });
                }
                Some(cp) => {
                    let mut a: Vec<u8> = cp.iter().map(|k| S::kc(k)).collect();
                    let mut b: Vec<u8> = m.iter().map(|k| S::kc(k)).collect();
                    a.sort();
                    b.sort();
                    let same = measured(&mut allocs, || cp == *m && *m == cp && !(cp != *m));
                    if same.is_none() {
                        fails.push(Fail { props: "C14".into(), msg: format!("[{}] comparing a set with its clone panicked", S::NAME) });
                    }
                    if a != b || same == Some(false) {
                        fails.push(Fail { props: "C14,C15".into(), msg: format!("[{}] the clone holds {a:?}, the original {b:?}; equal: {same:?}", S::NAME) });
                    }
                }
            }
            Value::Null
        }
        "s_extend" | "s_from_iter" => {
            let items: Vec<S::K> = op["items"].as_array().unwrap().iter().map(|it| S::k(it["k"]["c"].as_u64().unwrap() as u8)).collect();
            let n = items.len();
            if name == "s_extend" {
                match extend(m, items, &mut allocs) {
                    None => json!({"r": "panic"}),
                    Some(()) => json!({"r": "ok", "pulled": n}),
                }
            } else {
                match measured(&mut allocs, || items.into_iter().collect::<Set<S::K, N>>()) {
                    None => json!({"r": "panic"}),
                    Some(st) => {
                        *m = st;
                        json!({"r": "ok", "pulled": n})
                    }
                }
            }
        }
        _ => Value::Null,
    };
    let len = cage.m.len();
    if !cage.intact() || len > N || cage.m.capacity() != N {
        fails.push(Fail { props: "C03,C05".into(), msg: format!("[{}] memory outside the container was written or len() = {len} exceeds capacity {N}", S::NAME) });
        std::mem::forget(cage);
        finish(t, line, fails, rep);
        return;
    }
    if !obs.is_null() {
        let exp = content_of(&t["r"]);
        let exp = if exp["r"] == "panic" { json!({"r": "panic"}) } else { exp };
        if obs != exp {
            fails.push(Fail { props: crate::replay::op_props(op, t["s"].as_array().unwrap().len() >= N, &t["r"]), msg: format!("[{}] return value: observed {obs}, the model says {exp}", S::NAME) });
        }
        let mut post: Vec<u8> = cage.m.iter().map(|k| S::kc(k)).collect();
        post.sort();
        let exp_post: Vec<u8> = post_of(&t["p"]).into_iter().map(|x| x.0).collect();
        if post != exp_post {
            fails.push(Fail { props: crate::replay::op_props(op, false, &t["r"]), msg: format!("[{}] content afterwards: observed {post:?}, the model says {exp_post:?}", S::NAME) });
        }
        if len != post.len() || cage.m.is_empty() != (len == 0) {
            fails.push(Fail { props: "C05".into(), msg: format!("[{}] len() = {len} but iteration yields {} entries", S::NAME, post.len()) });
        }
    }
    if !S::ALLOCATES && allocs > 0 {
        fails.push(Fail { props: "C06".into(), msg: format!("[{}] {allocs} allocator call(s) inside a non-panicking container call ({name})", S::NAME) });
    }
    drop(cage);
    drop(probe);
    drop(obs);
    let tok1 = S::live();
    if tok1 != tok0 && fails.is_empty() {
        fails.push(Fail {
            props: "C02".into(),
            msg: if tok1 > tok0 {
                format!("[{}] {} element object(s) still alive after {name} and the drop of the container: neither handed out nor destroyed", S::NAME, tok1 - tok0)
            } else {
                format!("[{}] {} more element object(s) destroyed than created during {name}", S::NAME, tok0 - tok1)
            },
        });
    }
    finish(t, line, fails, rep);
}

fn finish(t: &Value, line: usize, fails: Vec<Fail>, rep: &mut Report) {
    for f in &fails {
        rep.add_fail(f, t, line, "edge replayed with another element shape");
    }
    rep.edges += 1;
}

pub fn run_shapes(table: &Table, set_mode: bool, rep: &mut Report) -> std::collections::BTreeMap<String, u64> {
    let mut per_shape: std::collections::BTreeMap<String, u64> = Default::default();
    macro_rules! go {
        ($S:ty, $f:ident, $t:expr, $idx:expr, $n:expr) => {{
            if max_class($t) <= <$S>::MAX_CLASS && max_val($t) <= <$S>::MAX_VAL {
                crate::replay::with_n!($n, $f, $t, $idx, rep);
                *per_shape.entry(<$S>::NAME.to_string()).or_insert(0) += 1;
            }
        }};
    }
    for (idx, t) in table.lines.iter().enumerate() {
        let name = t["o"]["name"].as_str().unwrap_or("");
        if !supported(name) {
            continue;
        }
        // the clone family's follow-up operations are the instrumented replay's business
        if name == "clone" && (t["o"]["then"]["name"] != "none" || t["o"]["on"] != "orig" || t["o"]["survivor"] != "orig") {
            continue;
        }
        crate::progress(idx);
        let n = t["n"].as_u64().unwrap() as usize;
        if set_mode {
            go!(Zst, edge_set_z, t, idx, n);
            go!(SmallCopy, edge_set_sc, t, idx, n);
            go!(Heap, edge_set_h, t, idx, n);
            go!(Large, edge_set_l, t, idx, n);
            go!(TokenKey, edge_set_tk, t, idx, n);
            crate::replay::with_n!(n, edge_tagged_set, t, idx, rep);
            crate::replay::with_n!(n, edge_dst_set, t, idx, rep);
            crate::replay::with_n!(n, edge_alias, t, idx, rep);
        } else {
            go!(Zst, edge_map_z, t, idx, n);
            go!(SmallCopy, edge_map_sc, t, idx, n);
            go!(Heap, edge_map_h, t, idx, n);
            go!(Large, edge_map_l, t, idx, n);
            go!(NoDropClone, edge_map_c, t, idx, n);
            go!(PlainKeyOwnedVal, edge_map_pk, t, idx, n);
            go!(OwnedKeyPlainVal, edge_map_ok, t, idx, n);
            go!(TokenVal, edge_map_tv, t, idx, n);
            go!(TokenKey, edge_map_tk, t, idx, n);
            crate::replay::with_n!(n, edge_tagged, t, idx, rep);
            crate::replay::with_n!(n, edge_dst, t, idx, rep);
            crate::replay::with_n!(n, edge_alias, t, idx, rep);
        }
        if (idx % 4 == 0 || name == "clone") && roomy_ok(t, n) && max_class(t) <= Large::MAX_CLASS {
            if set_mode {
                edge_set::<WideKey, ROOMY_SET>(t, idx, rep);
            } else {
                edge_map::<Large, ROOMY_MAP>(t, idx, rep);
                edge_map::<WideKey, ROOMY_MAP>(t, idx, rep);
            }
            *per_shape.entry("roomy (container value of 80-130 KiB)".to_string()).or_insert(0) += 1;
        }
        *rep.op_counts.entry(crate::replay::op_label(&t["o"])).or_insert(0) += 1;
        rep.distinct_states.insert(format!("{n}:{}", t["s"]));
    }
    per_shape
}

// with_n! passes the capacity as the first const parameter: thin adapters fix the shape
macro_rules! adapters {
    ($($name:ident => $f:ident, $S:ty;)*) => {$(
        fn $name<const N: usize>(t: &Value, line: usize, rep: &mut Report) { $f::<$S, N>(t, line, rep) }
    )*};
}
adapters! {
    edge_map_z => edge_map, Zst;
    edge_map_sc => edge_map, SmallCopy;
    edge_map_h => edge_map, Heap;
    edge_map_l => edge_map, Large;
    edge_map_c => edge_map, NoDropClone;
    edge_map_pk => edge_map, PlainKeyOwnedVal;
    edge_map_ok => edge_map, OwnedKeyPlainVal;
    edge_map_tv => edge_map, TokenVal;
    edge_map_tk => edge_map, TokenKey;
    edge_set_z => edge_set, Zst;
    edge_set_sc => edge_set, SmallCopy;
    edge_set_h => edge_set_nocopy, Heap;
    edge_set_l => edge_set, Large;
    edge_set_tk => edge_set_nocopy, TokenKey;
}
