//! Conformance harness binding the TLA+ specification of micromap to the real crate.
//!   harness replay --table T.ndjson --mode map|set [--edges] [--walks W --steps S --seed X]
//!                  [--stride K --offset O] --out report.json [--progress FILE]
//! Exit code 0 always when the run completes (the verdict is in the report); a crash
//! of the code under test kills the process and is turned into a violation by check.py.

mod cage;
mod common;
mod elem;
mod exec;
mod ledger;
mod micro;
mod pair;
mod replay;
mod shapes;
mod sweep;
mod trace;

use std::cell::RefCell;
use std::io::Write;

#[global_allocator]
static GLOBAL: ledger::CountingAlloc = ledger::CountingAlloc;

thread_local! {
    static PROGRESS: RefCell<Option<std::fs::File>> = const { RefCell::new(None) };
}

/// crash containment: remember which case is being executed
pub fn progress(idx: usize) {
    let _s = ledger::Suspend::new();
    PROGRESS.with(|p| {
        if let Some(f) = p.borrow_mut().as_mut() {
            use std::io::Seek;
            let _ = f.seek(std::io::SeekFrom::Start(0));
            let _ = writeln!(f, "{idx:>12}");
        }
    });
}

fn arg<'a>(args: &'a [String], name: &str) -> Option<&'a str> {
    args.iter().position(|a| a == name).and_then(|i| args.get(i + 1)).map(|s| s.as_str())
}
fn flag(args: &[String], name: &str) -> bool {
    args.iter().any(|a| a == name)
}

fn main() {
    let args: Vec<String> = std::env::args().collect();
    // panics of the code under test are data, not noise
    if std::env::var_os("VERIF_VERBOSE").is_none() {
        std::panic::set_hook(Box::new(|_| {}));
    }
    let cmd = args.get(1).map(|s| s.as_str()).unwrap_or("");
    match cmd {
        "replay" => {
            let table = replay::Table::load(arg(&args, "--table").expect("--table"));
            let set_mode = arg(&args, "--mode").unwrap_or("map") == "set";
            if let Some(p) = arg(&args, "--progress") {
                let f = std::fs::File::create(p).expect("progress file");
                PROGRESS.with(|x| *x.borrow_mut() = Some(f));
            }
            let env = replay::measure_all(set_mode, &table.caps);
            let mut rep = replay::Report::default();
            rep.poison_active = if set_mode {
                env.geo_set.values().any(|g| g.is_some())
            } else {
                env.geo_map.values().any(|g| g.is_some())
            };
            let stride: usize = arg(&args, "--stride").map(|s| s.parse().unwrap()).unwrap_or(1);
            let offset: usize = arg(&args, "--offset").map(|s| s.parse().unwrap()).unwrap_or(0);
            if flag(&args, "--edges") {
                replay::run_edges(&table, &env, &mut rep, stride, offset);
            }
            let walks: usize = arg(&args, "--walks").map(|s| s.parse().unwrap()).unwrap_or(0);
            let steps: usize = arg(&args, "--steps").map(|s| s.parse().unwrap()).unwrap_or(1000);
            let seed: u64 = arg(&args, "--seed").map(|s| s.parse().unwrap()).unwrap_or(1);
            if walks > 0 {
                replay::run_walks(&table, &env, &mut rep, seed, walks, steps);
            }
            let out = arg(&args, "--out").expect("--out");
            std::fs::write(out, serde_json::to_string_pretty(&rep.to_json()).unwrap()).expect("write report");
        }
        "inject" | "adversarial" => {
            let table = replay::Table::load(arg(&args, "--table").expect("--table"));
            let set_mode = arg(&args, "--mode").unwrap_or("map") == "set";
            if let Some(p) = arg(&args, "--progress") {
                let f = std::fs::File::create(p).expect("progress file");
                PROGRESS.with(|x| *x.borrow_mut() = Some(f));
            }
            let env = replay::measure_all(set_mode, &table.caps);
            let mut rep = replay::Report::default();
            let stride: usize = arg(&args, "--stride").map(|s| s.parse().unwrap()).unwrap_or(1);
            let offset: usize = arg(&args, "--offset").map(|s| s.parse().unwrap()).unwrap_or(0);
            let st = if cmd == "inject" {
                sweep::run_inject(&table, &env, &mut rep, stride, offset)
            } else {
                let leaves: usize = arg(&args, "--max-leaves").map(|s| s.parse().unwrap()).unwrap_or(512);
                sweep::run_adversarial(&table, &env, &mut rep, stride, offset, leaves)
            };
            let mut j = rep.to_json();
            j["sweep"] = serde_json::json!({"cases": st.cases, "runs": st.runs, "max_callbacks": st.max_callbacks,
                "truncated": st.truncated, "callback_kinds": st.cb_kinds, "failing_sites": st.failing_sites});
            let out = arg(&args, "--out").expect("--out");
            std::fs::write(out, serde_json::to_string_pretty(&j).unwrap()).expect("write report");
        }
        "micro" => {
            let set_mode = arg(&args, "--mode").unwrap_or("map") == "set";
            let adv = arg(&args, "--adv").unwrap_or("0") == "1";
            if let Some(p) = arg(&args, "--progress") {
                let f = std::fs::File::create(p).expect("progress file");
                PROGRESS.with(|x| *x.borrow_mut() = Some(f));
            }
            let env = replay::measure_all(set_mode, &[0, 1, 2, 3, 4]);
            let mut rep = replay::Report::default();
            let st = micro::run_micro(arg(&args, "--table").expect("--table"), &env, adv, &mut rep);
            let mut j = rep.to_json();
            j["sweep"] = serde_json::json!({"cases": st.lines, "runs": st.runs, "max_callbacks": st.max_callbacks, "truncated": 0,
                "callback_kinds": st.cb_kinds, "failing_sites": st.failing_sites,
                "injected_runs": st.injected_runs, "extra_positions": st.extra_positions,
                "drift_callbacks": st.drift_cb, "drift_outcome": st.drift_out, "drift_survivors": st.drift_post, "drift_asked": st.drift_asked});
            let out = arg(&args, "--out").expect("--out");
            std::fs::write(out, serde_json::to_string_pretty(&j).unwrap()).expect("write report");
        }
        "shapes" => {
            let table = replay::Table::load(arg(&args, "--table").expect("--table"));
            let set_mode = arg(&args, "--mode").unwrap_or("map") == "set";
            if let Some(p) = arg(&args, "--progress") {
                let f = std::fs::File::create(p).expect("progress file");
                PROGRESS.with(|x| *x.borrow_mut() = Some(f));
            }
            let mut rep = replay::Report::default();
            let per = shapes::run_shapes(&table, set_mode, &mut rep);
            let mut j = rep.to_json();
            j["shapes"] = serde_json::json!(per);
            let out = arg(&args, "--out").expect("--out");
            std::fs::write(out, serde_json::to_string_pretty(&j).unwrap()).expect("write report");
        }
        "trace" => {
            let set_mode = arg(&args, "--mode").unwrap_or("map") == "set";
            let seed: u64 = arg(&args, "--seed").map(|s| s.parse().unwrap()).unwrap_or(1);
            let runs: usize = arg(&args, "--runs").map(|s| s.parse().unwrap()).unwrap_or(4);
            let steps: usize = arg(&args, "--steps").map(|s| s.parse().unwrap()).unwrap_or(500);
            let classes: elem::Cls = arg(&args, "--classes").map(|s| s.parse().unwrap()).unwrap_or(12);
            let caps: Vec<usize> = arg(&args, "--caps").unwrap_or("8,6,4").split(',').map(|x| x.parse().unwrap()).collect();
            let inject: f64 = arg(&args, "--inject").map(|s| s.parse().unwrap()).unwrap_or(0.0);
            let info = if arg(&args, "--window").is_some() {
                // one history in a container of more than 65 536 entries, observed through a window of watched keys
                let path = arg(&args, "--trace").expect("--trace").to_string();
                std::thread::Builder::new()
                    .stack_size(1 << 30)
                    .spawn(move || trace::record_window(&path, set_mode, seed, steps))
                    .expect("spawn")
                    .join()
                    .expect("window trace thread")
            } else {
                trace::record(arg(&args, "--trace").expect("--trace"), set_mode, seed, runs, steps, &caps, classes, inject)
            };
            let out = arg(&args, "--out").expect("--out");
            std::fs::write(out, serde_json::to_string_pretty(&info).unwrap()).expect("write report");
        }
        "pairsweep" => {
            if let Some(p) = arg(&args, "--progress") {
                let f = std::fs::File::create(p).expect("progress file");
                PROGRESS.with(|x| *x.borrow_mut() = Some(f));
            }
            let adv = arg(&args, "--adv").unwrap_or("0") == "1";
            let leaves: usize = arg(&args, "--max-leaves").map(|s| s.parse().unwrap()).unwrap_or(128);
            let mut rep = replay::Report::default();
            let (cases, runs, maxcb) = pair::run_pairs_sweep(arg(&args, "--table").expect("--table"), adv, leaves, &mut rep);
            let mut j = rep.to_json();
            j["sweep"] = serde_json::json!({"cases": cases, "runs": runs, "max_callbacks": maxcb, "truncated": 0, "callback_kinds": {}, "failing_sites": {}});
            let out = arg(&args, "--out").expect("--out");
            std::fs::write(out, serde_json::to_string_pretty(&j).unwrap()).expect("write report");
        }
        "pairs" => {
            let set_mode = arg(&args, "--mode").unwrap_or("set") == "set";
            if let Some(p) = arg(&args, "--progress") {
                let f = std::fs::File::create(p).expect("progress file");
                PROGRESS.with(|x| *x.borrow_mut() = Some(f));
            }
            let mut rep = replay::Report::default();
            pair::run_pairs(arg(&args, "--table").expect("--table"), set_mode, &mut rep);
            let out = arg(&args, "--out").expect("--out");
            std::fs::write(out, serde_json::to_string_pretty(&rep.to_json()).unwrap()).expect("write report");
        }
        _ => {
            eprintln!("usage: harness replay --table T --mode map|set [--edges] [--walks W --steps S --seed X] --out R");
            std::process::exit(2);
        }
    }
}
