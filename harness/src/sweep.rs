//! Micro-level sweeps on the real code, driven by the TLC transition table:
//!   inject      - for every (state, op) edge: learn the number C of user callbacks the
//!                 code makes, then re-run it C times with a panic injected at callback
//!                 k = 1..C (C04);
//!   adversarial - for every (state, op) edge: explore the complete decision tree of
//!                 key-comparison outcomes of the real code depth-first (C17).
//! Only the SAFETY predicate is judged (wrong answers and leaks are allowed): no double
//! destruction, no use of dead / uninitialised data, survivors well-formed, usable and
//! droppable, len <= capacity, canaries intact, no aliasing.

use crate::cage::Cage;
use crate::common::*;
use crate::elem::{Key, Val};
use crate::exec::*;
use crate::ledger;
use crate::replay::{op_label, with_n, Env, Fail, Report, Table};
use micromap::{Map, Set};
use serde_json::{json, Value};
use std::collections::HashSet;

#[derive(Clone, Copy, PartialEq)]
pub enum Mode {
    Inject,
    Adversarial,
}

fn prop(mode: Mode) -> &'static str {
    match mode {
        Mode::Inject => "C04",
        Mode::Adversarial => "C17",
    }
}

/// What the LEDGER reports (an object destroyed twice, a dead or uninitialised object used) also
/// contradicts C02 as it is stated ("destroyed exactly once overall", "no operation reads ... a slot
/// that does not currently hold a live element") when the comparisons are lawful - whether or not user
/// code panicked on the way.
fn prop_ledger(mode: Mode) -> &'static str {
    match mode {
        Mode::Inject => "C04,C02",
        Mode::Adversarial => "C17",
    }
}

/// What must hold for the survivors after a panic / under a lying Eq.
fn judge_safety(
    mode: Mode,
    post: &[(KO, Option<VO>)],
    reported_len: usize,
    ctx: &mut Ctx,
    viol_seen: &mut usize,
    fails: &mut Vec<Fail>,
) {
    let p = prop(mode);
    if reported_len != post.len() {
        fails.push(Fail { props: p.into(), msg: format!("len() = {reported_len} but iteration yields {} entries", post.len()) });
    }
    let mut seen = HashSet::new();
    for (k, v) in post {
        if !seen.insert(k.serial) {
            fails.push(Fail { props: p.into(), msg: format!("the same key object K#{} is stored twice", k.serial) });
        }
        if let Some(v) = v {
            if !seen.insert(v.serial) {
                fails.push(Fail { props: p.into(), msg: format!("the same value object V#{} is stored twice", v.serial) });
            }
        }
    }
    if mode == Mode::Inject {
        for a in 0..post.len() {
            for b in (a + 1)..post.len() {
                if post[a].0.class == post[b].0.class {
                    fails.push(Fail { props: p.into(), msg: format!("two stored keys are equal (class {})", post[a].0.class) });
                }
            }
        }
    }
    // handed-out objects must be live and not also stored
    for h in &ctx.held {
        let sr = match h {
            Owned::K(k) => {
                k.check("object handed to the caller");
                k.serial
            }
            Owned::V(v) => {
                v.check("object handed to the caller");
                v.serial
            }
        };
        if !seen.insert(sr) {
            fails.push(Fail { props: p.into(), msg: format!("object #{sr} is both stored and handed to the caller") });
        }
    }
    let viol = ledger::with(|l| l.viol.clone());
    for v in viol.iter().skip(*viol_seen) {
        fails.push(Fail { props: prop_ledger(mode).into(), msg: v.clone() });
    }
    *viol_seen = viol.len();
    for n in ctx.notes.drain(..) {
        // instrument notes about aliasing / outside writes are safety; the others are answers
        if n.props.contains(p) {
            fails.push(Fail { props: p.into(), msg: n.msg });
        }
    }
}

/// The survivors must remain usable and droppable: look everything up, write through
/// values_mut, add and remove an element if there is room, clear, drop.
fn further_use_map<const N: usize>(mode: Mode, cage: &mut Cage<Map<Key, Val, N>>, viol_seen: &mut usize, fails: &mut Vec<Fail>) {
    let p = prop(mode);
    let mut ctx = Ctx::new(false);
    let r = std::panic::catch_unwind(std::panic::AssertUnwindSafe(|| {
        let n = cage.m.iter().count();
        for (k, v) in cage.m.iter() {
            k.check("stored key after the event");
            v.check("stored value after the event");
        }
        for v in cage.m.values_mut() {
            v.content = v.content.wrapping_add(0);
        }
        if n < N {
            let had = cage.m.len();
            cage.m.insert(Key::new(240, 0), Val::new(1));
            let back = cage.m.remove(&class_probe(240));
            if cage.m.len() != had || back.is_none() {
                return Some("an element inserted after the event cannot be taken out again");
            }
        }
        cage.m.clear();
        if !cage.m.is_empty() {
            return Some("clear() after the event leaves elements behind");
        }
        None
    }));
    match r {
        Ok(None) => {}
        Ok(Some(m)) => {
            if mode == Mode::Inject {
                fails.push(Fail { props: p.into(), msg: m.into() })
            }
        }
        Err(_) => fails.push(Fail { props: p.into(), msg: "using the surviving container panicked".into() }),
    }
    if !cage.intact() || cage.m.len() > N {
        fails.push(Fail { props: p.into(), msg: "further use wrote outside the container or broke len <= capacity".into() });
    }
    let viol = ledger::with(|l| l.viol.clone());
    for v in viol.iter().skip(*viol_seen) {
        fails.push(Fail { props: prop_ledger(mode).into(), msg: format!("during further use: {v}") });
    }
    *viol_seen = viol.len();
    drop(ctx.held.drain(..));
}

fn further_use_set<const N: usize>(mode: Mode, cage: &mut Cage<Set<Key, N>>, viol_seen: &mut usize, fails: &mut Vec<Fail>) {
    let p = prop(mode);
    let r = std::panic::catch_unwind(std::panic::AssertUnwindSafe(|| {
        let n = cage.m.iter().count();
        for k in cage.m.iter() {
            k.check("stored element after the event");
        }
        if n < N {
            let had = cage.m.len();
            cage.m.insert(Key::new(240, 0));
            let back = cage.m.remove(&class_probe(240));
            if cage.m.len() != had || !back {
                return Some("an element inserted after the event cannot be taken out again");
            }
        }
        cage.m.clear();
        if !cage.m.is_empty() {
            return Some("clear() after the event leaves elements behind");
        }
        None
    }));
    match r {
        Ok(None) => {}
        Ok(Some(m)) => {
            if mode == Mode::Inject {
                fails.push(Fail { props: p.into(), msg: m.into() })
            }
        }
        Err(_) => fails.push(Fail { props: p.into(), msg: "using the surviving container panicked".into() }),
    }
    if !cage.intact() || cage.m.len() > N {
        fails.push(Fail { props: p.into(), msg: "further use wrote outside the container or broke len <= capacity".into() });
    }
    let viol = ledger::with(|l| l.viol.clone());
    for v in viol.iter().skip(*viol_seen) {
        fails.push(Fail { props: prop_ledger(mode).into(), msg: format!("during further use: {v}") });
    }
    *viol_seen = viol.len();
}

fn end_viol(mode: Mode, viol_seen: &mut usize, fails: &mut Vec<Fail>) {
    let viol = ledger::with(|l| l.viol.clone());
    for v in viol.iter().skip(*viol_seen) {
        fails.push(Fail { props: prop_ledger(mode).into(), msg: format!("at the final drop: {v}") });
    }
    *viol_seen = viol.len();
}

pub struct RunOut {
    /// callback log with serials translated to model tags (0 = not an object the model knows)
    pub cb_tags: Vec<(char, i64, i64)>,
    /// survivors (key tag, class, value tag) in slot order, when the container could be read
    pub post: Option<Vec<(i64, crate::elem::Cls, i64)>>,
    pub callbacks: u64,
    pub eq_asked: usize,
    pub cb_log: Vec<(char, u32, u32)>,
    pub fails: Vec<Fail>,
    pub injected: bool,
    pub panicked: bool,
    /// what the executor returned for the call
    pub ret: Value,
}

fn translate(ctx: &Ctx, log: &[(char, u32, u32)]) -> Vec<(char, i64, i64)> {
    let tag = |sr: u32| -> i64 {
        if sr == 0 {
            return 0;
        }
        // value objects are written 100 + tag (key and value tags overlap)
        match ctx.tags.rk.get(&sr) {
            Some(t) => (*t).max(0),
            None => ctx.tags.rv.get(&sr).map(|t| if *t > 0 { 100 + *t } else { 0 }).unwrap_or(0),
        }
    };
    log.iter().map(|(k, a, b)| (*k, tag(*a), tag(*b))).collect()
}

/// one execution of the edge `t` on a freshly built container with the ledger's panic
/// position / comparison script as set by the caller
fn run_map<const N: usize>(mode: Mode, t: &Value, panic_at: u64, script: Option<Vec<bool>>) -> RunOut {
    ledger::reset();
    let mut cage = Cage::new(Map::<Key, Val, N>::new());
    for e in t["s"].as_array().unwrap() {
        // lying comparisons can create duplicate keys: build such states through the unsafe append path
        let k = Key::new(e[0].as_u64().unwrap() as crate::elem::Cls, e[1].as_u64().unwrap() as u8);
        let v = Val::new(e[2].as_u64().unwrap() as u8);
        if mode == Mode::Adversarial {
            ledger::with(|l| {
                l.eq_script = Some(vec![]);
                l.eq_default = false;
                l.in_call = true;
            });
            cage.m.insert(k, v);
            ledger::with(|l| {
                l.eq_script = None;
                l.in_call = false;
            });
        } else {
            cage.m.insert(k, v);
        }
    }
    let mut ctx = Ctx::new(false);
    for (idx, (k, v)) in observe_map(&cage.m).iter().enumerate() {
        ctx.tags.bind_k(idx as i64 + 1, k.serial);
        ctx.tags.bind_v(idx as i64 + 1, v.serial);
    }
    ledger::mark();
    ledger::with(|l| {
        l.panic_at = panic_at;
        l.eq_script = script;
        l.eq_default = false;
        l.log_cb = true;
    });
    let ret = exec_map(&mut cage, &t["o"], &mut ctx);
    let (callbacks, eq_asked, cb_log) = ledger::with(|l| {
        l.panic_at = 0;
        let asked = l.eq_pos;
        l.eq_script = None;
        (l.cb, asked, l.cb_log.clone())
    });
    let mut fails = vec![];
    let mut viol_seen = 0;
    let len = cage.m.len();
    let injected = ctx.injected;
    let panicked = ctx.panicked;
    if !cage.intact() || len > N || cage.m.capacity() != N {
        fails.push(Fail {
            props: prop(mode).into(),
            msg: format!("memory outside the container was written or len() = {len} exceeds capacity {N} (canaries intact: {})", cage.intact()),
        });
        let cb_tags = translate(&ctx, &cb_log);
        std::mem::forget(cage);
        std::mem::forget(ctx);
        return RunOut { cb_tags, post: None, callbacks, eq_asked, cb_log, fails, injected, panicked, ret: ret.clone() };
    }
    let post: Vec<(KO, Option<VO>)> = observe_map(&cage.m).into_iter().map(|(k, v)| (k, Some(v))).collect();
    bind_late(&mut ctx);
    let cb_tags = translate(&ctx, &cb_log);
    let post_tags: Vec<(i64, crate::elem::Cls, i64)> = post.iter().map(|(k, v)| (ctx.tags.ktag(k.serial).max(0), k.class, v.map(|v| ctx.tags.vtag(v.serial).max(0)).unwrap_or(0))).collect();
    judge_safety(mode, &post, len, &mut ctx, &mut viol_seen, &mut fails);
    // stash (e.g. clones kept by the executor) and held objects go first, then further use
    drop(ctx);
    end_viol(mode, &mut viol_seen, &mut fails);
    further_use_map(mode, &mut cage, &mut viol_seen, &mut fails);
    drop(cage);
    end_viol(mode, &mut viol_seen, &mut fails);
    RunOut { cb_tags, post: Some(post_tags), callbacks, eq_asked, cb_log, fails, injected, panicked, ret: ret.clone() }
}

fn run_set<const N: usize>(mode: Mode, t: &Value, panic_at: u64, script: Option<Vec<bool>>) -> RunOut {
    ledger::reset();
    let mut cage = Cage::new(Set::<Key, N>::new());
    for e in t["s"].as_array().unwrap() {
        let k = Key::new(e[0].as_u64().unwrap() as crate::elem::Cls, e[1].as_u64().unwrap() as u8);
        if mode == Mode::Adversarial {
            ledger::with(|l| {
                l.eq_script = Some(vec![]);
                l.eq_default = false;
                l.in_call = true;
            });
            cage.m.insert(k);
            ledger::with(|l| {
                l.eq_script = None;
                l.in_call = false;
            });
        } else {
            cage.m.insert(k);
        }
    }
    let mut ctx = Ctx::new(true);
    for (idx, k) in observe_set(&cage.m).iter().enumerate() {
        ctx.tags.bind_k(idx as i64 + 1, k.serial);
    }
    ledger::mark();
    ledger::with(|l| {
        l.panic_at = panic_at;
        l.eq_script = script;
        l.eq_default = false;
        l.log_cb = true;
    });
    let ret = exec_set(&mut cage, &t["o"], &mut ctx);
    let (callbacks, eq_asked, cb_log) = ledger::with(|l| {
        l.panic_at = 0;
        let asked = l.eq_pos;
        l.eq_script = None;
        (l.cb, asked, l.cb_log.clone())
    });
    let mut fails = vec![];
    let mut viol_seen = 0;
    let len = cage.m.len();
    let injected = ctx.injected;
    let panicked = ctx.panicked;
    if !cage.intact() || len > N || cage.m.capacity() != N {
        fails.push(Fail {
            props: prop(mode).into(),
            msg: format!("memory outside the container was written or len() = {len} exceeds capacity {N} (canaries intact: {})", cage.intact()),
        });
        let cb_tags = translate(&ctx, &cb_log);
        std::mem::forget(cage);
        std::mem::forget(ctx);
        return RunOut { cb_tags, post: None, callbacks, eq_asked, cb_log, fails, injected, panicked, ret: ret.clone() };
    }
    let post: Vec<(KO, Option<VO>)> = observe_set(&cage.m).into_iter().map(|k| (k, None)).collect();
    bind_late(&mut ctx);
    let cb_tags = translate(&ctx, &cb_log);
    let post_tags: Vec<(i64, crate::elem::Cls, i64)> = post.iter().map(|(k, _)| (ctx.tags.ktag(k.serial).max(0), k.class, 0)).collect();
    judge_safety(mode, &post, len, &mut ctx, &mut viol_seen, &mut fails);
    drop(ctx);
    end_viol(mode, &mut viol_seen, &mut fails);
    further_use_set(mode, &mut cage, &mut viol_seen, &mut fails);
    drop(cage);
    end_viol(mode, &mut viol_seen, &mut fails);
    RunOut { cb_tags, post: Some(post_tags), callbacks, eq_asked, cb_log, fails, injected, panicked, ret: ret.clone() }
}

pub fn run_any(mode: Mode, set_mode: bool, t: &Value, panic_at: u64, script: Option<Vec<bool>>) -> RunOut {
    let n = t["n"].as_u64().unwrap() as usize;
    if set_mode {
        with_n!(n, run_set, mode, t, panic_at, script)
    } else {
        with_n!(n, run_map, mode, t, panic_at, script)
    }
}

/// objects created during the call get the model's tags: clones 20 + source tag, Default 31
fn bind_late(ctx: &mut Ctx) {
    let (clones, defaults) = ledger::with(|l| (l.clones.clone(), l.defaults.clone()));
    for (src, new) in clones {
        if let Some(t) = ctx.tags.rk.get(&src).copied() {
            ctx.tags.bind_k(20 + t, new);
        } else if let Some(t) = ctx.tags.rv.get(&src).copied() {
            ctx.tags.bind_v(20 + t, new);
        }
    }
    if let Some(d) = defaults.first() {
        if !ctx.tags.v.contains_key(&FRESH) {
            ctx.tags.bind_v(FRESH, *d);
        }
    }
}

pub struct SweepStats {
    pub cases: u64,
    pub runs: u64,
    pub max_callbacks: u64,
    pub truncated: u64,
    pub cb_kinds: std::collections::BTreeMap<String, u64>,
    /// "op|callback kind" -> number of failing runs (what a known finding is identified by)
    pub failing_sites: std::collections::BTreeMap<String, u64>,
}

pub fn run_inject(table: &Table, env: &Env, rep: &mut Report, stride: usize, offset: usize) -> SweepStats {
    let mut st = SweepStats { cases: 0, runs: 0, max_callbacks: 0, truncated: 0, cb_kinds: Default::default(), failing_sites: Default::default() };
    for (idx, t) in table.lines.iter().enumerate() {
        if stride > 1 && idx % stride != offset {
            continue;
        }
        crate::progress(idx);
        // 1. clean run: how many callbacks does the CODE make here?
        let clean = run_any(Mode::Inject, env.set_mode, t, 0, None);
        st.cases += 1;
        st.runs += 1;
        st.max_callbacks = st.max_callbacks.max(clean.callbacks);
        for f in &clean.fails {
            rep.add_fail(f, t, idx, "no panic injected");
        }
        for (k, _, _) in &clean.cb_log {
            *st.cb_kinds.entry(k.to_string()).or_insert(0) += 1;
        }
        let c = clean.callbacks.min(200);
        if clean.callbacks > 200 {
            st.truncated += 1;
        }
        // 2. one run per callback position
        for k in 1..=c {
            let out = run_any(Mode::Inject, env.set_mode, t, k, None);
            st.runs += 1;
            let kind = clean.cb_log.get(k as usize - 1).map(|x| x.0).unwrap_or('?');
            if !out.fails.is_empty() {
                *st.failing_sites.entry(format!("{}|{}", op_label(&t["o"]), kind)).or_insert(0) += 1;
            }
            for f in &out.fails {
                let mut tt = t.clone();
                tt["inject"] = json!({"callback": k, "kind": kind.to_string(), "of": clean.callbacks, "site": format!("{}|{}", op_label(&t["o"]), kind)});
                let f2 = Fail { props: f.props.clone(), msg: format!("[panic in callback {k}/{} kind '{kind}'] {}", clean.callbacks, f.msg) };
                rep.add_fail(&f2, &tt, idx, &format!("panic injected into user callback {k} (kind {kind}) of op {}", op_label(&t["o"])));
            }
        }
        *rep.op_counts.entry(op_label(&t["o"])).or_insert(0) += 1;
        rep.edges += 1;
        rep.distinct_states.insert(format!("{}:{}", t["n"], t["s"]));
        if rep.samples.len() < 3 && c > 2 && idx % 61 == 5 {
            rep.samples.push(json!({"transition": t, "callbacks": clean.callbacks, "kinds": clean.cb_log.iter().map(|x| x.0.to_string()).collect::<Vec<_>>().join("")}));
        }
    }
    st
}

pub fn run_adversarial(table: &Table, env: &Env, rep: &mut Report, stride: usize, offset: usize, max_leaves: usize) -> SweepStats {
    let mut st = SweepStats { cases: 0, runs: 0, max_callbacks: 0, truncated: 0, cb_kinds: Default::default(), failing_sites: Default::default() };
    for (idx, t) in table.lines.iter().enumerate() {
        if stride > 1 && idx % stride != offset {
            continue;
        }
        crate::progress(idx);
        st.cases += 1;
        // depth-first enumeration of the decision tree of comparison outcomes of the real code
        let mut stack: Vec<Vec<bool>> = vec![vec![]];
        let mut leaves = 0usize;
        while let Some(script) = stack.pop() {
            if leaves >= max_leaves {
                st.truncated += 1;
                break;
            }
            let out = run_any(Mode::Adversarial, env.set_mode, t, 0, Some(script.clone()));
            leaves += 1;
            st.runs += 1;
            st.max_callbacks = st.max_callbacks.max(out.eq_asked as u64);
            if !out.fails.is_empty() {
                *st.failing_sites.entry(format!("{}|eq", op_label(&t["o"]))).or_insert(0) += 1;
            }
            for f in &out.fails {
                let mut tt = t.clone();
                tt["eq_script"] = json!(script);
                let f2 = Fail { props: f.props.clone(), msg: format!("[comparison outcomes {script:?} then false] {}", f.msg) };
                rep.add_fail(&f2, &tt, idx, "scripted (lying) key comparisons");
            }
            // the run answered `script` and then `false` (asked - len) times: branch on each of those
            let asked = out.eq_asked.min(24);
            for p in (script.len()..asked).rev() {
                let mut s2 = script.clone();
                s2.resize(p, false);
                s2.push(true);
                stack.push(s2);
            }
        }
        *rep.op_counts.entry(op_label(&t["o"])).or_insert(0) += 1;
        rep.edges += 1;
        rep.distinct_states.insert(format!("{}:{}", t["n"], t["s"]));
        if rep.samples.len() < 3 && leaves > 3 && idx % 61 == 5 {
            rep.samples.push(json!({"transition": t, "decision_tree_leaves": leaves}));
        }
    }
    st
}
