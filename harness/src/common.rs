//! Shared plumbing of the executors: tag <-> serial binding, measured calls,
//! JSON renderings of observed objects, Debug-output parsing.

use crate::elem::{Class, Cls, Key, Val};
use crate::ledger;
use serde_json::{json, Value};
use std::collections::HashMap;
use std::panic::{catch_unwind, AssertUnwindSafe};

pub const NO_WRITE: i64 = 99;
pub const ARG: i64 = 10;
pub const FRESH: i64 = 31;

pub enum Owned {
    K(Key),
    V(Val),
}

#[derive(Default)]
pub struct Tags {
    pub k: HashMap<i64, u32>,
    pub v: HashMap<i64, u32>,
    pub rk: HashMap<u32, i64>,
    pub rv: HashMap<u32, i64>,
}

impl Tags {
    pub fn bind_k(&mut self, tag: i64, serial: u32) {
        self.k.insert(tag, serial);
        self.rk.insert(serial, tag);
    }
    pub fn bind_v(&mut self, tag: i64, serial: u32) {
        self.v.insert(tag, serial);
        self.rv.insert(serial, tag);
    }
    /// tag of a key object; an object the model does not know is rendered as -serial
    pub fn ktag(&self, serial: u32) -> i64 {
        self.rk.get(&serial).copied().unwrap_or(-(serial as i64) - 1000)
    }
    pub fn vtag(&self, serial: u32) -> i64 {
        self.rv.get(&serial).copied().unwrap_or(-(serial as i64) - 1000)
    }
}

/// A failed self-consistency or instrument check, attributed to properties.
#[derive(Clone, Debug)]
pub struct Note {
    pub props: &'static str, // comma separated property ids
    pub msg: String,
}

pub struct Ctx {
    pub tags: Tags,
    pub set_mode: bool,
    /// objects handed back to the caller by the code under test
    pub held: Vec<Owned>,
    /// harness-owned probes (lookup keys) alive during the window
    pub extras: Vec<Owned>,
    /// other harness-owned containers kept alive until the step has been judged
    /// tag of the object `V::default()` makes during the call (traces use one beyond every slot tag)
    pub fresh_tag: i64,
    pub stash: Vec<Box<dyn std::any::Any>>,
    pub stash_serials: Vec<u32>,
    pub allocs: u64,
    pub notes: Vec<Note>,
    pub panicked: bool,
    pub injected: bool,
    /// address span of the container value (C06)
    pub span: (usize, usize),
    /// second operand's span for binary operations
    pub span_b: (usize, usize),
}

impl Ctx {
    pub fn new(set_mode: bool) -> Self {
        Ctx {
            tags: Tags::default(),
            set_mode,
            held: vec![],
            extras: vec![],
            fresh_tag: FRESH,
            stash: vec![],
            stash_serials: vec![],
            allocs: 0,
            notes: vec![],
            panicked: false,
            injected: false,
            span: (0, 0),
            span_b: (0, 0),
        }
    }
    pub fn note(&mut self, props: &'static str, msg: String) {
        if self.notes.len() < 32 {
            self.notes.push(Note { props, msg });
        }
    }
    pub fn jk(&self, k: &Key) -> Value {
        json!([self.tags.ktag(k.serial), k.class(), k.ver])
    }
    pub fn jv(&self, v: &Val) -> Value {
        json!([self.tags.vtag(v.serial), v.content])
    }
    pub fn je(&self, k: &Key, v: &Val) -> Value {
        json!([self.tags.ktag(k.serial), k.class(), k.ver, self.tags.vtag(v.serial), v.content])
    }
    /// set entries carry the unit value: tag 0, content 0
    pub fn je_set(&self, k: &Key) -> Value {
        json!([self.tags.ktag(k.serial), k.class(), k.ver, 0, 0])
    }
    pub fn rkey(&self, k: &Key) -> Value {
        json!(["key", self.tags.ktag(k.serial), k.class(), k.ver])
    }
    pub fn rval(&self, v: &Val) -> Value {
        json!(["val", self.tags.vtag(v.serial), v.content])
    }
    pub fn rent(&self, k: &Key, v: &Val) -> Value {
        json!(["ent", self.tags.ktag(k.serial), k.class(), k.ver, self.tags.vtag(v.serial), v.content])
    }
    /// C06: every element reference handed out points inside the container value
    pub fn inside<T>(&mut self, what: &str, r: &T) {
        let a = r as *const T as usize;
        let (lo, hi) = self.span;
        if hi != 0 && !(a >= lo && a + std::mem::size_of::<T>() <= hi) {
            self.note("C06", format!("{what}: reference {a:#x} outside the container value [{lo:#x},{hi:#x})"));
        }
    }
    pub fn inside_b<T>(&mut self, what: &str, r: &T) {
        let a = r as *const T as usize;
        let (lo, hi) = self.span_b;
        if hi != 0 && !(a >= lo && a + std::mem::size_of::<T>() <= hi) {
            self.note("C06", format!("{what}: reference {a:#x} outside the operand [{lo:#x},{hi:#x})"));
        }
    }
    pub fn mk_key(&mut self, o: &Value) -> Key {
        let k = Key::new(o["c"].as_u64().unwrap() as Cls, o["r"].as_u64().unwrap() as u8);
        self.tags.bind_k(o["kt"].as_i64().unwrap(), k.serial);
        k
    }
    pub fn mk_val(&mut self, o: &Value) -> Val {
        let v = Val::new(o["v"].as_u64().unwrap() as u8);
        self.tags.bind_v(o["vt"].as_i64().unwrap(), v.serial);
        v
    }
    pub fn probe_key(&mut self, class: Cls) -> *const Key {
        let k = Key::new(class, 7);
        self.extras.push(Owned::K(k));
        match self.extras.last().unwrap() {
            Owned::K(k) => k as *const Key,
            _ => unreachable!(),
        }
    }
    pub fn hold_k(&mut self, k: Key) {
        self.held.push(Owned::K(k));
    }
    pub fn hold_v(&mut self, v: Val) {
        self.held.push(Owned::V(v));
    }
}

/// One measured call into the code under test: allocator armed, panics caught.
pub fn call<R>(ctx: &mut Ctx, f: impl FnOnce() -> R) -> Option<R> {
    ledger::arm();
    let r = catch_unwind(AssertUnwindSafe(f));
    let n = ledger::disarm();
    match r {
        Ok(v) => {
            ctx.allocs += n;
            if n > 0 {
                ctx.note("C06", format!("{n} allocator call(s) inside a non-panicking container call"));
            }
            Some(v)
        }
        Err(p) => {
            ctx.panicked = true;
            if p.is::<ledger::Injected>() {
                ctx.injected = true;
            }
            // the payload of a container-raised panic is a heap object: drop it unmeasured
            drop(p);
            None
        }
    }
}

pub fn class_probe(c: Cls) -> Class {
    Class::probe(c)
}

/// Objects listed by a Debug rendering: `K<c>.<r>#<serial>` and `V<c>#<serial>`.
#[derive(Debug, Clone, PartialEq)]
pub enum Tok {
    K(Cls, u8, u32),
    V(u8, u32),
}

pub fn parse_debug(s: &str) -> Vec<Tok> {
    let b = s.as_bytes();
    let mut out = vec![];
    let mut i = 0;
    let num = |i: &mut usize| -> Option<u64> {
        let st = *i;
        while *i < b.len() && b[*i].is_ascii_digit() {
            *i += 1;
        }
        if *i == st {
            None
        } else {
            s[st..*i].parse().ok()
        }
    };
    while i < b.len() {
        if b[i] == b'K' {
            i += 1;
            if let Some(c) = num(&mut i) {
                if i < b.len() && b[i] == b'.' {
                    i += 1;
                    if let Some(r) = num(&mut i) {
                        if i < b.len() && b[i] == b'#' {
                            i += 1;
                            if let Some(sr) = num(&mut i) {
                                out.push(Tok::K(c as Cls, r as u8, sr as u32));
                            }
                        }
                    }
                }
            }
        } else if b[i] == b'V' {
            i += 1;
            if let Some(c) = num(&mut i) {
                if i < b.len() && b[i] == b'#' {
                    i += 1;
                    if let Some(sr) = num(&mut i) {
                        out.push(Tok::V(c as u8, sr as u32));
                    }
                }
            }
        } else {
            i += 1;
        }
    }
    out
}

/// Render parsed tokens in the shape of a cursor kind's items.
pub fn toks_to_items(ctx: &Ctx, toks: &[Tok], shape: &str) -> Option<Vec<Value>> {
    let mut out = vec![];
    match shape {
        "ent" => {
            if toks.len() % 2 != 0 {
                return None;
            }
            for p in toks.chunks(2) {
                match (&p[0], &p[1]) {
                    (Tok::K(c, r, ks), Tok::V(v, vs)) => {
                        out.push(json!([ctx.tags.ktag(*ks), c, r, ctx.tags.vtag(*vs), v]))
                    }
                    _ => return None,
                }
            }
        }
        "key" => {
            for t in toks {
                match t {
                    Tok::K(c, r, ks) => out.push(json!([ctx.tags.ktag(*ks), c, r])),
                    _ => return None,
                }
            }
        }
        "val" => {
            for t in toks {
                match t {
                    Tok::V(v, vs) => out.push(json!([ctx.tags.vtag(*vs), v])),
                    _ => return None,
                }
            }
        }
        _ => return None,
    }
    Some(out)
}

/// A fixed-size, non-allocating formatting sink (C06 / C19).
pub struct StackSink {
    pub buf: [u8; 8192],
    pub len: usize,
    pub overflow: bool,
    /// how many bytes the sink accepts (a write that does not fit is refused as a whole)
    pub limit: usize,
}
impl StackSink {
    pub fn new() -> Self {
        StackSink { buf: [0; 8192], len: 0, overflow: false, limit: 8192 }
    }
    pub fn bounded(limit: usize) -> Self {
        StackSink { buf: [0; 8192], len: 0, overflow: false, limit: limit.min(8192) }
    }
    pub fn as_str(&self) -> &str {
        std::str::from_utf8(&self.buf[..self.len]).unwrap_or("<non-utf8>")
    }
}
impl std::fmt::Write for StackSink {
    fn write_str(&mut self, s: &str) -> std::fmt::Result {
        let b = s.as_bytes();
        if self.len + b.len() > self.limit {
            self.overflow = true;
            return Err(std::fmt::Error);
        }
        self.buf[self.len..self.len + b.len()].copy_from_slice(b);
        self.len += b.len();
        Ok(())
    }
}
