//! Instrumented element types. Plain old data (no heap), so that a stray
//! bitwise copy or a read of a vacated slot is harmless to the process and is
//! detected by the ledger instead of by the memory allocator.

use crate::ledger::{self, Kind};
use std::borrow::Borrow;
use std::fmt;

/// key classes (wide enough for containers beyond 256 entries)
pub type Cls = u32;

pub const KMAGIC: u32 = 0x4B45_5921;
pub const VMAGIC: u32 = 0x5641_4C21;
pub const DEADMAGIC: u32 = 0xDEAD_DEAD;

/// The borrowed form of a key: compares by class only. `owner` is the serial of
/// the key it is embedded in (0 for a free-standing probe).
#[repr(C)]
#[derive(Debug)]
pub struct Class {
    pub class: Cls,
    pub owner: u32,
}

#[repr(C)]
pub struct Key {
    pub magic: u32,
    pub serial: u32,
    pub cls: Class,
    pub ver: u8,
}

#[repr(C)]
pub struct Val {
    pub magic: u32,
    pub serial: u32,
    pub content: u8,
}

impl Class {
    pub fn probe(class: Cls) -> Self {
        Class { class, owner: 0 }
    }
    fn check(&self, what: &str) {
        if self.owner != 0 {
            ledger::check_use(what, Kind::K, true, self.owner);
        }
    }
}

impl Key {
    pub fn new(class: Cls, ver: u8) -> Self {
        let serial = ledger::fresh(Kind::K);
        Key { magic: KMAGIC, serial, cls: Class { class, owner: serial }, ver }
    }
    pub fn class(&self) -> Cls {
        self.cls.class
    }
    pub fn check(&self, what: &str) -> bool {
        ledger::check_use(what, Kind::K, self.magic == KMAGIC, self.serial)
    }
}

impl Val {
    pub fn new(content: u8) -> Self {
        let serial = ledger::fresh(Kind::V);
        Val { magic: VMAGIC, serial, content }
    }
    pub fn check(&self, what: &str) -> bool {
        ledger::check_use(what, Kind::V, self.magic == VMAGIC, self.serial)
    }
}

impl PartialEq for Key {
    fn eq(&self, other: &Key) -> bool {
        if ledger::is_quiet() {
            return self.cls.class == other.cls.class;
        }
        self.check("eq(lhs)");
        other.check("eq(rhs)");
        ledger::maybe_panic('e', self.serial, other.serial);
        ledger::eq_outcome(self.cls.class == other.cls.class)
    }
}
impl Eq for Key {}

impl PartialEq for Class {
    fn eq(&self, other: &Class) -> bool {
        if ledger::is_quiet() {
            return self.class == other.class;
        }
        self.check("eq(lhs,borrowed)");
        other.check("eq(rhs,borrowed)");
        ledger::maybe_panic('q', self.owner, other.owner);
        ledger::eq_outcome(self.class == other.class)
    }
}
impl Eq for Class {}

impl Borrow<Class> for Key {
    fn borrow(&self) -> &Class {
        if ledger::is_quiet() {
            return &self.cls;
        }
        self.check("borrow");
        &self.cls
    }
}

impl PartialEq for Val {
    fn eq(&self, other: &Val) -> bool {
        self.check("veq(lhs)");
        other.check("veq(rhs)");
        ledger::maybe_panic('v', self.serial, other.serial);
        self.content == other.content
    }
}
impl Eq for Val {}

impl Clone for Key {
    fn clone(&self) -> Key {
        self.check("clone");
        ledger::maybe_panic('c', self.serial, 0);
        let k = Key::new(self.cls.class, self.ver);
        ledger::with(|l| l.clones.push((self.serial, k.serial)));
        k
    }
}

impl Clone for Val {
    fn clone(&self) -> Val {
        self.check("clone");
        ledger::maybe_panic('c', self.serial, 0);
        let v = Val::new(self.content);
        ledger::with(|l| l.clones.push((self.serial, v.serial)));
        v
    }
}

impl Default for Val {
    fn default() -> Val {
        ledger::maybe_panic('u', 0, 0);
        let v = Val::new(0);
        ledger::with(|l| l.defaults.push(v.serial));
        v
    }
}

impl Drop for Key {
    fn drop(&mut self) {
        let ok = self.magic == KMAGIC;
        let serial = self.serial;
        ledger::on_drop(Kind::K, ok, serial);
        if ok {
            unsafe { std::ptr::write_volatile(&mut self.magic, DEADMAGIC) };
        }
        ledger::maybe_panic('d', serial, 0);
    }
}

impl Drop for Val {
    fn drop(&mut self) {
        let ok = self.magic == VMAGIC;
        let serial = self.serial;
        ledger::on_drop(Kind::V, ok, serial);
        if ok {
            unsafe { std::ptr::write_volatile(&mut self.magic, DEADMAGIC) };
        }
        ledger::maybe_panic('d', serial, 0);
    }
}

/// renders into a small stack buffer and hands the text to `Formatter::pad`, so that width /
/// alignment flags of the format spec are honoured without touching the heap
fn padded(f: &mut fmt::Formatter<'_>, args: fmt::Arguments<'_>) -> fmt::Result {
    struct Buf([u8; 48], usize);
    impl fmt::Write for Buf {
        fn write_str(&mut self, s: &str) -> fmt::Result {
            let b = s.as_bytes();
            if self.1 + b.len() > self.0.len() {
                return Err(fmt::Error);
            }
            self.0[self.1..self.1 + b.len()].copy_from_slice(b);
            self.1 += b.len();
            Ok(())
        }
    }
    let mut b = Buf([0; 48], 0);
    fmt::Write::write_fmt(&mut b, args)?;
    f.pad(std::str::from_utf8(&b.0[..b.1]).unwrap_or("?"))
}

// Debug / Display output is comma-free, so that a rendered list can be split.
impl fmt::Debug for Key {
    fn fmt(&self, f: &mut fmt::Formatter<'_>) -> fmt::Result {
        self.check("fmt");
        ledger::maybe_panic('t', self.serial, 0);
        padded(f, format_args!("K{}.{}#{}", self.cls.class, self.ver, self.serial))
    }
}
impl fmt::Display for Key {
    fn fmt(&self, f: &mut fmt::Formatter<'_>) -> fmt::Result {
        self.check("fmt");
        ledger::maybe_panic('t', self.serial, 0);
        padded(f, format_args!("k{}.{}#{}", self.cls.class, self.ver, self.serial))
    }
}
impl fmt::Debug for Val {
    fn fmt(&self, f: &mut fmt::Formatter<'_>) -> fmt::Result {
        self.check("fmt");
        ledger::maybe_panic('t', self.serial, 0);
        padded(f, format_args!("V{}#{}", self.content, self.serial))
    }
}
impl fmt::Display for Val {
    fn fmt(&self, f: &mut fmt::Formatter<'_>) -> fmt::Result {
        self.check("fmt");
        ledger::maybe_panic('t', self.serial, 0);
        padded(f, format_args!("v{}#{}", self.content, self.serial))
    }
}

// serde: a key travels as the string "class.ver" (JSON map keys must be strings), a value
// as its content; decoding creates new objects
impl serde::Serialize for Key {
    fn serialize<S: serde::Serializer>(&self, s: S) -> Result<S::Ok, S::Error> {
        self.check("serialize");
        s.serialize_str(&format!("{}.{}", self.cls.class, self.ver))
    }
}
impl<'de> serde::Deserialize<'de> for Key {
    fn deserialize<D: serde::Deserializer<'de>>(d: D) -> Result<Key, D::Error> {
        let s = String::deserialize(d)?;
        let mut it = s.split('.');
        let c: Cls = it.next().and_then(|x| x.parse().ok()).ok_or_else(|| serde::de::Error::custom("bad key"))?;
        let r: u8 = it.next().and_then(|x| x.parse().ok()).ok_or_else(|| serde::de::Error::custom("bad key"))?;
        Ok(Key::new(c, r))
    }
}
impl serde::Serialize for Val {
    fn serialize<S: serde::Serializer>(&self, s: S) -> Result<S::Ok, S::Error> {
        self.check("serialize");
        self.content.serialize(s)
    }
}
impl<'de> serde::Deserialize<'de> for Val {
    fn deserialize<D: serde::Deserializer<'de>>(d: D) -> Result<Val, D::Error> {
        Ok(Val::new(u8::deserialize(d)?))
    }
}
