//! The container under test lives between two canary arrays; spare slots are
//! overwritten with poison after every step, so that a read of a vacated or never
//! initialised slot yields an impossible object (flagged by the ledger) instead of
//! whatever bytes happened to be there.

use crate::elem::{Key, Val};
use micromap::{Map, Set};

pub const CANARY: u64 = 0xC0FF_EEF0_0DBE_EF11;
pub const POISON: u8 = 0xA5;

#[repr(C)]
pub struct Cage<C> {
    pre: [u64; 16],
    pub m: C,
    post: [u64; 16],
}

impl<C> Cage<C> {
    pub fn new(m: C) -> Box<Self> {
        Box::new(Cage { pre: [CANARY; 16], m, post: [CANARY; 16] })
    }
    pub fn intact(&self) -> bool {
        // volatile: the optimiser must not assume nobody wrote here
        let mut ok = true;
        for i in 0..16 {
            unsafe {
                ok &= std::ptr::read_volatile(&self.pre[i]) == CANARY;
                ok &= std::ptr::read_volatile(&self.post[i]) == CANARY;
            }
        }
        ok
    }
    pub fn span(&self) -> (usize, usize) {
        let a = &self.m as *const C as usize;
        (a, a + std::mem::size_of::<C>())
    }
}

/// Where the slot array sits inside the container value (measured, never assumed).
#[derive(Clone, Copy, Debug)]
pub struct Geometry {
    pub base: usize,
    pub stride: usize,
    pub n: usize,
}

pub fn measure_map<const N: usize>() -> Option<Geometry> {
    if N == 0 {
        return None;
    }
    let t = (Key::new(250, 9), Val::new(250));
    let key_in_tuple = (&t.0 as *const Key as usize) - (&t as *const (Key, Val) as usize);
    drop(t);
    let mut m: Box<Map<Key, Val, N>> = Box::new(Map::new());
    m.insert(Key::new(250, 9), Val::new(250));
    let m0 = &*m as *const Map<Key, Val, N> as usize;
    let k0 = m.iter().next().map(|(k, _)| k as *const Key as usize)?;
    let base = k0.checked_sub(m0)?.checked_sub(key_in_tuple)?;
    let stride = std::mem::size_of::<(Key, Val)>();
    if N > 1 {
        m.insert(Key::new(251, 9), Val::new(251));
        let k1 = m.iter().nth(1).map(|(k, _)| k as *const Key as usize)?;
        if k1 != k0 + stride {
            return None;
        }
    }
    if base + stride * N > std::mem::size_of::<Map<Key, Val, N>>() {
        return None;
    }
    Some(Geometry { base, stride, n: N })
}

pub fn measure_set<const N: usize>() -> Option<Geometry> {
    if N == 0 {
        return None;
    }
    let t = (Key::new(250, 9), ());
    let key_in_tuple = (&t.0 as *const Key as usize) - (&t as *const (Key, ()) as usize);
    drop(t);
    let mut m: Box<Set<Key, N>> = Box::new(Set::new());
    m.insert(Key::new(250, 9));
    let m0 = &*m as *const Set<Key, N> as usize;
    let k0 = m.iter().next().map(|k| k as *const Key as usize)?;
    let base = k0.checked_sub(m0)?.checked_sub(key_in_tuple)?;
    let stride = std::mem::size_of::<(Key, ())>();
    if N > 1 {
        m.insert(Key::new(251, 9));
        let k1 = m.iter().nth(1).map(|k| k as *const Key as usize)?;
        if k1 != k0 + stride {
            return None;
        }
    }
    if base + stride * N > std::mem::size_of::<Set<Key, N>>() {
        return None;
    }
    Some(Geometry { base, stride, n: N })
}

/// Overwrite slots [len, n) with poison.
pub fn poison<C>(m: &mut C, g: &Geometry, len: usize) {
    if len >= g.n {
        return;
    }
    let p = m as *mut C as *mut u8;
    unsafe {
        std::ptr::write_bytes(p.add(g.base + len * g.stride), POISON, (g.n - len) * g.stride);
    }
}
