#!/usr/bin/env python3
"""Development tool: demonstrates that the specification is bound to the code and that the
invariants are not vacuous.

  (i)   one field of a TLC-generated transition is corrupted -> the replay reports it
  (ii)  one field of a recorded trace is corrupted -> TLC rejects the trace at that event
  (iii) bugs are seeded into the SPECIFICATION -> TLC reports an invariant violation for each

Exit 0 iff every demonstration behaves as expected. Not a registered check.
"""
import json
import os
import shutil
import subprocess
import sys

ROOT = os.path.dirname(os.path.dirname(os.path.abspath(__file__)))
sys.path.insert(0, ROOT)
import check  # noqa: E402

W = os.path.join(check.WORK, "selftest")


def tlc(d, module, cfg, env=None, workers="4"):
    with open(os.path.join(d, "MC.cfg"), "w") as f:
        f.write(cfg)
    e = dict(os.environ, JAVA_TOOL_OPTIONS="-Xss1g -Dtlc2.tool.queue.IStateQueue=StateDeque")
    e.update(env or {})
    p = subprocess.run(["timeout", "900", "tlc", "-workers", workers, "-noGenerateSpecTE", "-config", "MC.cfg", module + ".tla"],
                       cwd=d, stdout=subprocess.PIPE, stderr=subprocess.STDOUT, text=True, env=e)
    shutil.rmtree(os.path.join(d, "states"), ignore_errors=True)
    return p.stdout


def fresh(name):
    d = os.path.join(W, name)
    shutil.rmtree(d, ignore_errors=True)
    os.makedirs(d)
    for f in os.listdir(check.SPEC):
        if f.endswith(".tla"):
            shutil.copy(os.path.join(check.SPEC, f), d)
    return d


MACRO_CFG = """SPECIFICATION Spec
CONSTANTS
  Caps = {0, 1, 2}
  Classes = {0, 1, 2}
  Vers = {0, 1}
  Vals = {0, 1}
  Mode = "map"
  Family = {"core"}
  Emit = %s
  MaxKs = 2
  MaxExtra = 1
INVARIANTS TypeOK Bounded UniqueKeys RefinesDict Conservation UncheckedAgrees DisjointAgrees
CHECK_DEADLOCK FALSE
"""
MICRO_CFG = """SPECIFICATION Spec
CONSTANTS
  Cap = 2
  Classes = {1, 2, 3}
  Adv = FALSE
  Budget = 1
  Mode = "map"
  Fams = {"core", "clone"}
  MaxJ = 2
  MaxItems = 2
  Emit = FALSE
INVARIANTS Safe Bounded IdleWellFormed MicroRefinesMacro
CHECK_DEADLOCK FALSE
"""
PAIR_CFG = """SPECIFICATION Spec
CONSTANTS
  CapA = 2
  CapB = 3
  Classes = {0, 1, 2}
  VerA = 0
  VerB = 1
  Vals = {0}
  Mode = "set"
  Family = {"algebra", "eq"}
  Emit = FALSE
INVARIANTS TypeOK UniqueKeys EqIsExtensional AlgebraIsMath
CHECK_DEADLOCK FALSE
"""

SPEC_BUGS = [
    ("micro: clear() resets len only after the loop (the defect fixed by 5f69ba9)", "MapMicro", MICRO_CFG, [
        ("  /\\ A' = [A EXCEPT !.len = 0] /\\ L' = [L EXCEPT !.hi = A.len, !.i = 1]", "  /\\ A' = A /\\ L' = [L EXCEPT !.hi = A.len, !.i = 1]"),
        ("  /\\ IF L.i > L.hi THEN pc' = \"done\" /\\ L' = L /\\ UNCHANGED <<A, viol, hist>>\n     ELSE /\\ viol' = Note(viol, A.s[L.i].st = \"l\", \"clear destroyed",
         "  /\\ IF L.i > L.hi THEN pc' = \"done\" /\\ L' = L /\\ A' = [A EXCEPT !.len = 0] /\\ UNCHANGED <<viol, hist>>\n     ELSE /\\ viol' = Note(viol, A.s[L.i].st = \"l\", \"clear destroyed"),
    ], "Safe"),
    ("micro: clone publishes len before the elements exist (the defect fixed by ba0bdd8)", "MapMicro", MICRO_CFG, [
        ("  /\\ pc = \"cl0\" /\\ pc' = \"cl_k\" /\\ T' = Fresh", "  /\\ pc = \"cl0\" /\\ pc' = \"cl_k\" /\\ T' = [Fresh EXCEPT !.len = A.len]"),
        ("IF IsMap THEN 20 + sl.vt ELSE 0), !.len = T.len + 1]", "IF IsMap THEN 20 + sl.vt ELSE 0)]"),
    ], "Safe"),
    ("micro: retain drops the pair in place before unlinking it (the defect fixed by 31329cb)", "MapMicro", MICRO_CFG, [
        ("                   ELSE /\\ A' = RIR(A, i)\n                        /\\ pc' = \"dropping\" /\\ L' = GoDrop(L, PairDrops(sl.kt, sl.vt), \"rt\")",
         "                   ELSE /\\ A' = [A EXCEPT !.s[i].st = \"d\"]\n                        /\\ pc' = \"dropping\" /\\ L' = GoDrop(L, PairDrops(sl.kt, sl.vt), \"rt_fix\")"),
        ("\\* map.rs clear: len = 0 first",
         "RetainFix == /\\ pc = \"rt_fix\" /\\ pc' = \"rt\" /\\ L' = L /\\ UNCHANGED <<T, budget, viol, hist>>\n             /\\ A' = LET n == A.len IN IF L.i # n THEN [A EXCEPT !.s[L.i] = A.s[n], !.s[n].st = \"m\", !.len = n - 1] ELSE [A EXCEPT !.len = n - 1]\n\\* map.rs clear: len = 0 first"),
        ("  \\/ LookupAfter \\/ InsertTail \\/ RetainStep", "  \\/ LookupAfter \\/ InsertTail \\/ RetainStep \\/ RetainFix"),
    ], "Safe"),
    ("micro: swap-remove forgets to move the last pair into the hole (the two layers disagree)", "MapMicro", MICRO_CFG, [
        ("  IN IF i # n THEN [c1 EXCEPT !.s[i] = C.s[n], !.s[n].st = \"m\"] ELSE c1", "  IN IF i # n THEN [c1 EXCEPT !.s[i] = C.s[i], !.s[n].st = \"m\"] ELSE c1"),
    ], "MicroRefinesMacro"),
    ("macro: retain advances after a removal", "MapSpec", MACRO_CFG % "FALSE", [
        ("       ELSE RetainLoop(SwapRemove(seen, i), i, keep, w, gone \\cup {seen[i]})", "       ELSE RetainLoop(SwapRemove(seen, i), i + 1, keep, w, gone \\cup {seen[i]})"),
    ], "RefinesDict", "Map"),
    ("macro: insert replaces the stored key", "MapSpec", MACRO_CFG % "FALSE", [
        ("OpInsert(ts, cap, k, v) ==              \\* map.rs insert\n  LET r == InsertII(ts, cap, k, v, FALSE) IN", "OpInsert(ts, cap, k, v) ==              \\* map.rs insert\n  LET r == InsertII(ts, cap, k, v, TRUE) IN"),
    ], "RefinesDict", "MapOps"),
    ("pair: difference's size_hint lower bound ignores the other set", "PairSpec", PAIR_CFG, [
        ("DiffHint(ra, otherLen)  == <<Monus(ra, otherLen), ra>>", "DiffHint(ra, otherLen)  == <<ra, ra>>"),
    ], "AlgebraIsMath", "Map"),
    ("pair: equality skips the length comparison", "PairSpec", PAIR_CFG, [
        ("  /\\ Len(a) = Len(b)\n  /\\ \\A i \\in 1..Len(a) : LET j == Find(b, a[i].c)", "  /\\ \\A i \\in 1..Len(a) : LET j == Find(b, a[i].c)"),
    ], "EqIsExtensional", "Map"),
]


def main():
    ok = True
    os.makedirs(W, exist_ok=True)
    bins = check.build_all(["debug"])
    binp = bins["debug"]
    # ---------------------------------------------------------------- (i)
    d = fresh("table")
    out = tlc(d, "MapSpec", MACRO_CFG % "TRUE")
    lines = [l[len('<<"TR", "'):-len('">>')].replace('\\"', '"').replace("\\\\", "\\") for l in out.splitlines() if l.startswith('<<"TR", "')]
    good = [l for l in lines if '"name":"remove"' in l and '"val"' in l][:1]
    t = json.loads(good[0])
    bad = json.loads(good[0])
    bad["r"][2] = 1 - bad["r"][2]         # the content of the returned value
    res = []
    for name, rec in (("intact", t), ("corrupted", bad)):
        tp = os.path.join(d, name + ".ndjson")
        with open(tp, "w") as f:
            f.write(json.dumps(rec) + "\n")
        rp = os.path.join(d, name + ".json")
        subprocess.run(binp + ["replay", "--table", tp, "--mode", "map", "--edges", "--out", rp], check=True)
        res.append(json.load(open(rp))["fail_counts"])
    print("(i) replay of an intact transition: %s ; of the same transition with one corrupted field: %s" % (res[0], res[1]))
    ok &= res[0] == {} and res[1] != {}
    # ---------------------------------------------------------------- (ii)
    d = fresh("trace")
    tr = os.path.join(d, "t.ndjson")
    subprocess.run(binp + ["trace", "--mode", "map", "--seed", "7", "--runs", "2", "--steps", "300", "--trace", tr, "--out", os.path.join(d, "i.json")], check=True)
    cfg = "SPECIFICATION Spec\nPOSTCONDITION Accepted\nCHECK_DEADLOCK FALSE\n"
    o1 = tlc(d, "Trace", cfg, {"TRACE": tr}, workers="1")
    L = open(tr).read().splitlines()
    k = next(i for i in range(200, len(L)) if json.loads(L[i]).get("o", {}).get("name") in ("insert", "remove", "get"))
    e = json.loads(L[k])
    e["len"] = e["len"] + 1
    L[k] = json.dumps(e)
    bad = os.path.join(d, "bad.ndjson")
    open(bad, "w").write("\n".join(L) + "\n")
    o2 = tlc(d, "Trace", cfg, {"TRACE": bad}, workers="1")
    import re
    d1 = int(re.search(r"depth of the complete state graph search is (\d+)", o1).group(1))
    d2 = int(re.search(r"depth of the complete state graph search is (\d+)", o2).group(1))
    print("(ii) recorded trace of %d events: accepted=%s ; with event %d corrupted: rejected at event %d" % (len(L), "No error" in o1 and d1 - 1 == len(L), k + 1, d2))
    ok &= "No error" in o1 and d1 - 1 == len(L) and d2 == k + 1
    # ---------------------------------------------------------------- (ii-b) windowed history at 65 600 entries
    d = fresh("huge")
    tr = os.path.join(d, "t.ndjson")
    relb = [os.path.join(check.HARNESS, "target", "p-release", "release", "verif-harness")]
    if os.path.exists(relb[0]):
        subprocess.run(relb + ["trace", "--mode", "map", "--seed", "3", "--steps", "120", "--window", "1", "--trace", tr, "--out", os.path.join(d, "i.json")], check=True)
        o1 = tlc(d, "Trace", cfg, {"TRACE": tr}, workers="1")
        L = open(tr).read().splitlines()
        d1 = int(re.search(r"depth of the complete state graph search is (\d+)", o1).group(1))
        verdicts = []
        for what in ("digest", "hidden"):
            M = list(L)
            if what == "digest":     # a complete traversal (or the final drain) whose digest of the hidden entries is off by one
                k = next(i for i in range(1, len(M)) if json.loads(M[i]).get("o", {}).get("name") in ("cursor_all", "drain_all"))
                e = json.loads(M[k])
                e["r"]["hs"] = "%016x" % ((int(e["r"]["hs"], 16) + 1) % (1 << 64))
            else:                    # a single-key call after which one hidden entry has silently gone
                k = next(i for i in range(5, len(M)) if json.loads(M[i]).get("o", {}).get("name") in ("get", "insert", "remove", "entry"))
                e = json.loads(M[k])
                e["hid2"] = e["hid2"] - 1
                e["len"] = e["len"] - 1
            M[k] = json.dumps(e)
            bad = os.path.join(d, "bad-%s.ndjson" % what)
            open(bad, "w").write("\n".join(M) + "\n")
            o2 = tlc(d, "Trace", cfg, {"TRACE": bad}, workers="1")
            d2 = int(re.search(r"depth of the complete state graph search is (\d+)", o2).group(1))
            verdicts.append((what, k + 1, d2))
            ok &= d2 == k + 1
        print("(ii-b) windowed trace of %d events at capacity 65 600: accepted=%s ; corrupted (what, event, rejected at): %s"
              % (len(L), "No error" in o1 and d1 - 1 == len(L), verdicts))
        ok &= "No error" in o1 and d1 - 1 == len(L)
    else:
        print("(ii-b) skipped: no release harness")
    # ---------------------------------------------------------------- (iii)
    for bug in SPEC_BUGS:
        title, module, cfg, edits, inv = bug[:5]
        target = bug[5] if len(bug) > 5 else module
        d = fresh("bug")
        p = os.path.join(d, target + ".tla")
        s = open(p).read()
        for a, b in edits:
            if a not in s:
                print("(iii) %s: the text to mutate was not found in %s.tla" % (title, target))
                ok = False
            s = s.replace(a, b)
        open(p, "w").write(s)
        o = tlc(d, module, cfg)
        found = ("Invariant %s is violated" % inv) in o
        print("(iii) %-86s -> TLC: %s" % (title, "Invariant %s is violated" % inv if found else "NOT DETECTED: " + o[-300:].replace("\n", " ")))
        ok &= found
    # ---------------------------------------------------------------- (iv) Apalache: MapRef is not vacuous
    for title, old, new in [
        ("swap-remove moves the wrong slot into the hole", "SubSeq([slots EXCEPT ![i] = slots[n]], 1, n - 1)\n          /\\ last' = [Call(\"remove\")", "SubSeq([slots EXCEPT ![i] = slots[1]], 1, n - 1)\n          /\\ last' = [Call(\"remove\")"),
        ("insert stores the new key object", "r |-> IF upd THEN r ELSE slots[i].r, v |-> v]", "r |-> r, v |-> v]"),
        ("retain advances after a removal", "ELSE LET n == Len(slots) IN ri' = ri /\\ slots'", "ELSE LET n == Len(slots) IN ri' = ri + 1 /\\ slots'"),
    ]:
        d = fresh("apa")
        p = os.path.join(d, "MapRef.tla")
        t = open(p).read()
        if old not in t:
            print("(iv) %s: the text to mutate was not found" % title)
            ok = False
            continue
        open(p, "w").write(t.replace(old, new))
        outs = []
        for inv in ("Refines", "IndInv"):
            q = subprocess.run(["timeout", "2400", "apalache-mc", "check", "--cinit=ConstInit", "--init=IndInit", "--inv=" + inv, "--length=1", "MapRef.tla"],
                               cwd=d, stdout=subprocess.PIPE, stderr=subprocess.STDOUT, text=True)
            outs.append("The outcome is: Error" in q.stdout)
            if outs[-1]:
                break
        print("(iv) %-86s -> Apalache: %s" % ("MapRef: " + title, "refuted" if any(outs) else "NOT DETECTED"))
        ok &= any(outs)
        shutil.rmtree(d, ignore_errors=True)
    # ---------------------------------------------------------------- (v) TLAPS: wrong statements are not provable
    for mod, title, old, new in [
        ("MapProof.tla", "swap-remove leaves the key set unchanged", "PROVE  Ks' = Ks \\ {slots[i]}", "PROVE  Ks' = Ks"),
        ("MapProofRetain.tla", "retain advances after a removal", "ELSE ri' = ri /\\ SwapRemove(ri)", "ELSE ri' = ri + 1 /\\ SwapRemove(ri)"),
        ("MapProofEq.tla", "== without the length comparison", "  /\\ Len(a) = Len(b)\n  /\\ \\A i \\in 1..Len(a) : \\E j", "  /\\ TRUE\n  /\\ \\A i \\in 1..Len(a) : \\E j"),
        ("MapProofPanic.tla", "clear() resets len after the loop (the defect fixed by 5f69ba9)", "ClearStart == pc = \"idle\" /\\ n' = len /\\ len' = 0 /\\", "ClearStart == pc = \"idle\" /\\ n' = len /\\ len' = len /\\"),
        ("MapProofPanic.tla", "clone publishes len first (the defect fixed by ba0bdd8)", "CloneStart == pc = \"idle\" /\\ tlen' = 0 /\\", "CloneStart == pc = \"idle\" /\\ tlen' = len /\\"),
        ("MapProofDisj.tla", "requests need not be pairwise different", "  /\\ Q \\in Seq(Keys) /\\ NoRepeat(Q)", "  /\\ Q \\in Seq(Keys)"),
    ]:
        d = fresh("tlaps")
        p = os.path.join(d, mod)
        t = open(p).read()
        if old not in t:
            print("(v) %s: the text to mutate was not found in %s" % (title, mod))
            ok = False
            continue
        open(p, "w").write(t.replace(old, new))
        q = subprocess.run(["timeout", "900", "tlapm", "--threads", "8", "--cleanfp", mod], cwd=d, stdout=subprocess.PIPE, stderr=subprocess.STDOUT, text=True)
        failed = "obligations failed" in q.stdout
        print("(v) %-86s -> TLAPS: %s" % (mod + ": " + title, "not provable (as it should be)" if failed else "PROVED?!"))
        ok &= failed
        shutil.rmtree(d, ignore_errors=True)
    print("selftest", "ok" if ok else "FAILED")
    return 0 if ok else 1


if __name__ == "__main__":
    sys.exit(main())
