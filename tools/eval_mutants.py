#!/usr/bin/env python3
"""Development tool: confirm seeded changes and run the checks against them.

  eval_mutants.py confirm <outdir> ...   verify each candidate in a scratch worktree (compiles,
                                         unit tests pass, demo fails with / passes without) and
                                         copy it to /verif/seeded/<id>/
  eval_mutants.py run [<id> ...]         apply each kept change to /repo, run `check.py matrix`,
                                         undo it, and record which checks report
  eval_mutants.py run-isolated [<id>..]  the same against a scratch worktree of /repo (snapshot harness pointed at it)
"""
import glob
import json
import os
import re
import shutil
import subprocess
import sys

ROOT = os.path.dirname(os.path.dirname(os.path.abspath(__file__)))
SEEDED = os.path.join(ROOT, "seeded")
SCRATCH = "/tmp/wt/eval"


def sh(cmd, cwd=None, timeout=1800):
    p = subprocess.run(cmd, cwd=cwd, shell=isinstance(cmd, str), stdout=subprocess.PIPE, stderr=subprocess.STDOUT, text=True, timeout=timeout,
                       env=dict(os.environ, CARGO_NET_OFFLINE="true"))
    return p.returncode, p.stdout


def passed_count(out):
    m = re.findall(r"test result: (\w+)\. (\d+) passed; (\d+) failed", out)
    return [(a, int(b), int(c)) for a, b, c in m]


def confirm(outdir):
    res = []
    if not os.path.exists(SCRATCH):
        sh(["git", "-C", "/repo", "worktree", "add", "-q", "--detach", SCRATCH, "HEAD"])
    for meta_path in sorted(glob.glob(os.path.join(outdir, "m*.meta.json"))):
        n = re.search(r"m(\d+)\.meta", meta_path).group(1)
        if os.environ.get("ONLY") and n not in os.environ["ONLY"].split(","):
            continue
        meta = json.load(open(meta_path))
        pid = meta["property"]
        patch = os.path.join(outdir, "m%s.patch.diff" % n)
        demo = os.path.join(outdir, "m%s.demo.rs" % n)
        flags = []
        dc = meta.get("demo_cmd", "")
        if re.search(r"^[^(]*--release", dc):      # (ignore remarks in parentheses after the command)
            flags.append("--release")
        if "serde" in dc:
            flags += ["--features", "serde"]
        sh("git checkout -q -- . && git clean -fdq -e target", cwd=SCRATCH)
        rc, out = sh(["git", "apply", patch], cwd=SCRATCH)
        rec = {"id": "%s-m%s" % (pid, n), "property": pid, "summary": meta.get("summary"), "needs": meta.get("needs"), "demo_flags": flags}
        if rc != 0:
            rec["kept"] = False
            rec["why"] = "patch does not apply: " + out[-300:]
            res.append(rec)
            continue
        rc1, o1 = sh(["cargo", "build", "--offline", "--quiet"], cwd=SCRATCH)
        rc2, o2 = sh(["cargo", "build", "--offline", "--quiet", "--release"], cwd=SCRATCH)
        rc3, o3 = sh(["cargo", "test", "--offline", "--lib"], cwd=SCRATCH)
        pc = passed_count(o3)
        rec["compiles"] = rc1 == 0 and rc2 == 0
        rec["unit_tests"] = pc
        tests_ok = rc3 == 0 and pc and pc[0][1] == 131 and pc[0][2] == 0
        tname = "demo_%s_%s" % (pid, n)
        shutil.copy(demo, os.path.join(SCRATCH, "tests", tname + ".rs"))
        rc4, o4 = sh(["cargo", "test", "--offline", "--test", tname] + flags, cwd=SCRATCH)
        rec["demo_fails_with"] = rc4 != 0
        rec["demo_output_with"] = "\n".join(l for l in o4.splitlines() if "panicked" in l or "left:" in l or "right:" in l or "FAILED" in l)[:800]
        sh("git checkout -q -- .", cwd=SCRATCH)
        rc5, o5 = sh(["cargo", "test", "--offline", "--test", tname] + flags, cwd=SCRATCH)
        rec["demo_passes_without"] = rc5 == 0
        sh("git clean -fdq -e target", cwd=SCRATCH)
        rec["kept"] = bool(rec["compiles"] and tests_ok and rec["demo_fails_with"] and rec["demo_passes_without"])
        if not rec["kept"]:
            rec["why"] = "compiles=%s tests=%s fails_with=%s passes_without=%s" % (rec["compiles"], pc, rec["demo_fails_with"], rec["demo_passes_without"])
        else:
            d = os.path.join(SEEDED, rec["id"])
            os.makedirs(d, exist_ok=True)
            shutil.copy(patch, os.path.join(d, "patch.diff"))
            shutil.copy(demo, os.path.join(d, "demo.rs"))
            prev = {}
            if os.path.exists(os.path.join(d, "meta.json")):
                prev = {k: v for k, v in json.load(open(os.path.join(d, "meta.json"))).items()
                        if k in ("checks_reporting", "caught_by_own_property_check", "drift_steps", "examples", "ran")}
            json.dump({**prev, "id": rec["id"], "breaks_property": pid, "summary": rec["summary"], "needs_to_manifest": rec["needs"],
                       "source": "independent sub-agent given only the property text and a scratch worktree",
                       "confirmed": {"how": "scratch worktree of /repo HEAD: git apply; cargo build (debug+release); cargo test --lib (131 pass); "
                                            "cargo test --test %s %s fails with the change and passes without it" % (tname, " ".join(flags)),
                                     "unit_tests": pc, "demo_failure": rec["demo_output_with"]},
                       "demo_cmd": "cargo test --offline --test %s %s" % (tname, " ".join(flags))},
                      open(os.path.join(d, "meta.json"), "w"), indent=1)
        res.append(rec)
        print(json.dumps({k: rec[k] for k in ("id", "kept", "compiles", "unit_tests", "demo_fails_with", "demo_passes_without") if k in rec}))
    return res


SNAP = "/tmp/vsnap"


def run(ids, isolated=False, base=None):
    # the checks run from a snapshot of /verif's HEAD, so that editing /verif meanwhile cannot disturb them
    global SNAP
    repo = "/repo"
    if isolated:
        # ... and against a scratch worktree of /repo (the snapshot's harness is pointed at it), so that
        # /repo itself stays untouched and development checks can go on meanwhile
        SNAP, repo = "/tmp/vsnap-iso", "/tmp/vrepo-iso"
        sh("git -C /repo worktree remove --force %s; git -C /repo worktree prune" % repo)
        rc, out = sh(["git", "-C", "/repo", "worktree", "add", "-q", "--detach", repo, "HEAD"])
        if rc != 0:
            print("cannot make a scratch repo:", out)
            return
    sh("git -C %s worktree remove --force %s; git -C %s worktree prune" % (ROOT, SNAP, ROOT))
    rc, out = sh(["git", "-C", ROOT, "worktree", "add", "-q", "--detach", SNAP, "HEAD"])
    if rc != 0:
        print("cannot make a snapshot:", out)
        return
    if isolated:
        ct = os.path.join(SNAP, "harness", "Cargo.toml")
        txt = open(ct).read().replace('path = "/repo"', 'path = "%s"' % repo)
        open(ct, "w").write(txt)
        os.environ["VERIF_DEV_REPO"] = repo
    for d in sorted(glob.glob(os.path.join(base or SEEDED, "*"))):
        mid = os.path.basename(d)
        if ids and mid not in ids:
            continue
        if not os.path.exists(os.path.join(d, "patch.diff")):
            continue
        rc, out = sh(["git", "-C", repo, "status", "--porcelain"])
        if out.strip():
            print("refusing: %s is not clean" % repo)
            return
        rc, out = sh(["git", "-C", repo, "apply", os.path.join(d, "patch.diff")])
        try:
            if rc != 0:
                print(mid, "patch does not apply", out[-200:])
                continue
            rc, out = sh(["python3", os.path.join(SNAP, "check.py"), "matrix", "--tier", "quick"], cwd=SNAP, timeout=3600)
        finally:
            sh("git -C %s checkout -q -- . && git -C %s clean -fdq -e target" % (repo, repo))
        m = [l for l in out.splitlines() if l.startswith("MATRIX ")]
        meta = json.load(open(os.path.join(d, "meta.json")))
        if m:
            r = json.loads(m[0][7:])
            meta["checks_reporting"] = r["violating"]
            if "breaks_property" in meta:
                meta["caught_by_own_property_check"] = meta["breaks_property"] in r["violating"]
            meta["drift_steps"] = r["drift"]
            meta["examples"] = {k: v[:1] for k, v in r["examples"].items()}
            meta["ran"] = "git -C /repo apply patch.diff; python3 check.py matrix --tier quick (every quick job once, debug+release); git -C /repo checkout -- ."
        else:
            meta["checks_reporting"] = None
            meta["matrix_error"] = out[-1500:]
        json.dump(meta, open(os.path.join(d, "meta.json"), "w"), indent=1)
        print(mid, "->", meta.get("checks_reporting"), "own:", meta.get("caught_by_own_property_check"), "drift", meta.get("drift_steps"))


if __name__ == "__main__":
    if sys.argv[1] == "confirm":
        for o in sys.argv[2:]:
            confirm(o)
    elif sys.argv[1] == "run":
        run(sys.argv[2:])
    elif sys.argv[1] == "benign-isolated":
        run(sys.argv[2:], isolated=True, base=os.path.join(ROOT, "benign"))
        sh("git -C %s worktree remove --force /tmp/vsnap-iso; git -C /repo worktree remove --force /tmp/vrepo-iso" % ROOT)
    elif sys.argv[1] == "run-isolated":
        run(sys.argv[2:], isolated=True)
        sh("git -C %s worktree remove --force /tmp/vsnap-iso; git -C /repo worktree remove --force /tmp/vrepo-iso" % ROOT)
