#!/usr/bin/env python3
"""Development tool: applies each behaviour-preserving refactoring of /verif/benign to /repo, runs
`check.py matrix` from a snapshot of /verif, restores /repo and records that no check reports."""
import glob, json, os, subprocess, sys
ROOT = os.path.dirname(os.path.dirname(os.path.abspath(__file__)))
sys.path.insert(0, os.path.join(ROOT, "tools"))
from eval_mutants import sh, SNAP
sh("git -C %s worktree remove --force %s; git -C %s worktree prune" % (ROOT, SNAP, ROOT))
sh(["git", "-C", ROOT, "worktree", "add", "-q", "--detach", SNAP, "HEAD"])
for d in sorted(glob.glob(os.path.join(ROOT, "benign", "*"))):
    if sys.argv[1:] and os.path.basename(d) not in sys.argv[1:]:
        continue
    rc, out = sh(["git", "-C", "/repo", "status", "--porcelain"])
    if out.strip():
        print("refusing: /repo is not clean"); break
    rc, out = sh(["git", "-C", "/repo", "apply", os.path.join(d, "patch.diff")])
    try:
        rc, out = sh(["python3", os.path.join(SNAP, "check.py"), "matrix", "--tier", "quick"], cwd=SNAP, timeout=3600)
    finally:
        sh("git -C /repo checkout -q -- . && git -C /repo clean -fdq -e target")
    m = [l for l in out.splitlines() if l.startswith("MATRIX ")]
    meta = json.load(open(os.path.join(d, "meta.json")))
    if m:
        r = json.loads(m[0][7:])
        meta["checks_reporting"] = r["violating"]; meta["drift_steps"] = r["drift"]; meta["examples"] = {k: v[:1] for k, v in r["examples"].items()}
    else:
        meta["checks_reporting"] = None; meta["matrix_error"] = out[-1500:]
    json.dump(meta, open(os.path.join(d, "meta.json"), "w"), indent=1)
    print(os.path.basename(d), "->", meta.get("checks_reporting"), "drift", meta.get("drift_steps"))
