#!/usr/bin/env python3
"""Development tool: renders /verif/seeded/*/meta.json as the table of DESIGN.md section 10."""
import glob
import json
import os
import re

ROOT = os.path.dirname(os.path.dirname(os.path.abspath(__file__)))
rows = []
for d in sorted(glob.glob(os.path.join(ROOT, "seeded", "*"))):
    mp = os.path.join(d, "meta.json")
    if not os.path.exists(mp):
        continue
    m = json.load(open(mp))
    s = re.sub(r"\s+", " ", (m.get("summary") or "")).replace("|", "/")
    if len(s) > 150:
        s = s[:147] + "..."
    rep = m.get("checks_reporting")
    own = m.get("caught_by_own_property_check")
    rows.append("| %s | %s | %s | %s |" % (m["id"], s, ", ".join(rep) if rep else ("(none)" if rep == [] else "not run"),
                                           "yes" if own else ("**no**" if rep is not None else "")))
hdr = "| change | what it does | quick checks reporting a violation | own property's check |\n|---|---|---|---|\n"
n = len(rows)
caught = sum(1 for r in rows if "(none)" not in r and "not run" not in r)
table = hdr + "\n".join(rows) + "\n\n%d of %d changes are reported by at least one quick check." % (caught, n)
p = os.path.join(ROOT, "DESIGN.md")
s = open(p).read()
if "SEEDED_TABLE_PLACEHOLDER" in s:
    s = s.replace("SEEDED_TABLE_PLACEHOLDER", "<!-- seeded-table -->\n" + table + "\n<!-- /seeded-table -->")
else:
    s = re.sub(r"<!-- seeded-table -->.*?<!-- /seeded-table -->", lambda _: "<!-- seeded-table -->\n" + table + "\n<!-- /seeded-table -->", s, flags=re.S)
open(p, "w").write(s)
print(table[-200:])
