------------------------------ MODULE MapProof ------------------------------
(***************************************************************************)
(* TLAPS: the representation invariant of micromap (len <= Cap, keys        *)
(* pairwise different) is inductive for an UNBOUNDED capacity - no bound on *)
(* Cap, on the key universe or on the length of the slot sequence.          *)
(***************************************************************************)
EXTENDS Integers, Sequences, TLAPS

CONSTANTS Cap, Keys
ASSUME CapNat == Cap \in Nat

VARIABLE slots

TypeOK == slots \in Seq(Keys)
Unique == \A i, j \in 1..Len(slots) : slots[i] = slots[j] => i = j
Inv == TypeOK /\ Len(slots) <= Cap /\ Unique

Present(k) == \E i \in 1..Len(slots) : slots[i] = k

Init == slots = <<>>

\* map.rs insert_ii: value replaced in place when present; appended when there is room; else panic
Insert(k) ==
  /\ k \in Keys
  /\ IF Present(k) THEN UNCHANGED slots
     ELSE IF Len(slots) < Cap THEN slots' = Append(slots, k)
     ELSE UNCHANGED slots

\* map.rs remove_index_read: the last live slot moves into the hole, len -= 1
SwapRemove(i) ==
  /\ i \in 1..Len(slots)
  /\ slots' = [j \in 1..(Len(slots) - 1) |-> IF j = i THEN slots[Len(slots)] ELSE slots[j]]

\* IntoIter::next: len -= 1
PopBack == /\ Len(slots) > 0
           /\ slots' = [j \in 1..(Len(slots) - 1) |-> slots[j]]

Clear == slots' = <<>>

Next == (\E k \in Keys : Insert(k)) \/ (\E i \in 1..Len(slots) : SwapRemove(i)) \/ PopBack \/ Clear

THEOREM InitInv == Init => Inv
  BY CapNat DEF Init, Inv, TypeOK, Unique

THEOREM InsertInv == ASSUME Inv, NEW k \in Keys, Insert(k) PROVE Inv'
  <1>1. CASE Present(k)
    BY <1>1 DEF Insert, Inv, TypeOK, Unique
  <1>2. CASE ~Present(k) /\ Len(slots) < Cap
    <2>1. slots' = Append(slots, k) BY <1>2 DEF Insert
    <2>2. slots' \in Seq(Keys) BY <2>1 DEF Inv, TypeOK
    <2>3. Len(slots') = Len(slots) + 1 BY <2>1 DEF Inv, TypeOK
    <2>4. Len(slots') <= Cap BY <2>3, <1>2, CapNat DEF Inv, TypeOK
    <2>5. \A i \in 1..Len(slots) : slots'[i] = slots[i] BY <2>1 DEF Inv, TypeOK
    <2>6. slots'[Len(slots) + 1] = k BY <2>1 DEF Inv, TypeOK
    <2>7. \A i \in 1..Len(slots) : slots[i] # k BY <1>2 DEF Present
    <2>8. Unique'
      BY <2>3, <2>5, <2>6, <2>7 DEF Unique, Inv, TypeOK
    <2>. QED BY <2>2, <2>4, <2>8 DEF Inv, TypeOK
  <1>3. CASE ~Present(k) /\ ~(Len(slots) < Cap)
    BY <1>3 DEF Insert, Inv, TypeOK, Unique
  <1>. QED BY <1>1, <1>2, <1>3

THEOREM SwapRemoveInv == ASSUME Inv, NEW i \in 1..Len(slots), SwapRemove(i) PROVE Inv'
  <1> DEFINE n == Len(slots)
  <1>0. n \in Nat /\ n >= 1 /\ slots \in Seq(Keys) BY DEF Inv, TypeOK
  <1>1. slots' = [j \in 1..(n - 1) |-> IF j = i THEN slots[n] ELSE slots[j]] BY DEF SwapRemove
  <1>2. slots' \in Seq(Keys) /\ Len(slots') = n - 1
    BY <1>0, <1>1
  <1>3. Len(slots') <= Cap BY <1>2, <1>0, CapNat DEF Inv
  <1>4. \A j \in 1..(n - 1) : slots'[j] = IF j = i THEN slots[n] ELSE slots[j] BY <1>1
  <1>5. Unique'
    BY <1>0, <1>2, <1>4 DEF Unique, Inv
  <1>. QED BY <1>2, <1>3, <1>5 DEF Inv, TypeOK

THEOREM PopBackInv == ASSUME Inv, PopBack PROVE Inv'
  <1> DEFINE n == Len(slots)
  <1>0. n \in Nat /\ n >= 1 /\ slots \in Seq(Keys) BY DEF Inv, TypeOK, PopBack
  <1>1. slots' = [j \in 1..(n - 1) |-> slots[j]] BY DEF PopBack
  <1>2. slots' \in Seq(Keys) /\ Len(slots') = n - 1 BY <1>0, <1>1
  <1>3. \A j \in 1..(n - 1) : slots'[j] = slots[j] BY <1>1
  <1>4. Unique' BY <1>0, <1>2, <1>3 DEF Unique, Inv
  <1>. QED BY <1>2, <1>4, <1>0, CapNat DEF Inv, TypeOK

THEOREM ClearInv == ASSUME Inv, Clear PROVE Inv'
  BY CapNat DEF Clear, Inv, TypeOK, Unique

THEOREM NextInv == Inv /\ [Next]_slots => Inv'
  <1> SUFFICES ASSUME Inv, [Next]_slots PROVE Inv' OBVIOUS
  <1>1. CASE \E k \in Keys : Insert(k) BY <1>1, InsertInv
  <1>2. CASE \E i \in 1..Len(slots) : SwapRemove(i) BY <1>2, SwapRemoveInv
  <1>3. CASE PopBack BY <1>3, PopBackInv
  <1>4. CASE Clear BY <1>4, ClearInv
  <1>5. CASE UNCHANGED slots BY <1>5 DEF Inv, TypeOK, Unique
  <1>. QED BY <1>1, <1>2, <1>3, <1>4, <1>5 DEF Next

THEOREM Safety == Init /\ [][Next]_slots => []Inv
  BY InitInv, NextInv, PTL
=============================================================================
