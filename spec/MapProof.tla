------------------------------ MODULE MapProof ------------------------------
(***************************************************************************)
(* TLAPS: the representation invariant of micromap (len <= Cap, keys        *)
(* pairwise different) is inductive for an UNBOUNDED capacity - no bound on *)
(* Cap, on the key universe or on the length of the slot sequence - and     *)
(* each slot-level step refines the ideal set of keys (theorems InsertRef,  *)
(* SwapRemoveRef, PopBackRef, ClearRef, LookupRef at the end).              *)
(***************************************************************************)
EXTENDS Integers, Sequences, TLAPS

CONSTANTS Cap, Keys
ASSUME CapNat == Cap \in Nat

VARIABLE slots

TypeOK == slots \in Seq(Keys)
Unique == \A i, j \in 1..Len(slots) : slots[i] = slots[j] => i = j
Inv == TypeOK /\ Len(slots) <= Cap /\ Unique

Present(k) == \E i \in 1..Len(slots) : slots[i] = k

Init == slots = <<>>

\* map.rs insert_ii: value replaced in place when present; appended when there is room; else panic
Insert(k) ==
  /\ k \in Keys
  /\ IF Present(k) THEN UNCHANGED slots
     ELSE IF Len(slots) < Cap THEN slots' = Append(slots, k)
     ELSE UNCHANGED slots

\* map.rs remove_index_read: the last live slot moves into the hole, len -= 1
SwapRemove(i) ==
  /\ i \in 1..Len(slots)
  /\ slots' = [j \in 1..(Len(slots) - 1) |-> IF j = i THEN slots[Len(slots)] ELSE slots[j]]

\* IntoIter::next: len -= 1
PopBack == /\ Len(slots) > 0
           /\ slots' = [j \in 1..(Len(slots) - 1) |-> slots[j]]

Clear == slots' = <<>>

Next == (\E k \in Keys : Insert(k)) \/ (\E i \in 1..Len(slots) : SwapRemove(i)) \/ PopBack \/ Clear

THEOREM InitInv == Init => Inv
  BY CapNat DEF Init, Inv, TypeOK, Unique

THEOREM InsertInv == ASSUME Inv, NEW k \in Keys, Insert(k) PROVE Inv'
  <1>1. CASE Present(k)
    BY <1>1 DEF Insert, Inv, TypeOK, Unique
  <1>2. CASE ~Present(k) /\ Len(slots) < Cap
    <2>1. slots' = Append(slots, k) BY <1>2 DEF Insert
    <2>2. slots' \in Seq(Keys) BY <2>1 DEF Inv, TypeOK
    <2>3. Len(slots') = Len(slots) + 1 BY <2>1 DEF Inv, TypeOK
    <2>4. Len(slots') <= Cap BY <2>3, <1>2, CapNat DEF Inv, TypeOK
    <2>5. \A i \in 1..Len(slots) : slots'[i] = slots[i] BY <2>1 DEF Inv, TypeOK
    <2>6. slots'[Len(slots) + 1] = k BY <2>1 DEF Inv, TypeOK
    <2>7. \A i \in 1..Len(slots) : slots[i] # k BY <1>2 DEF Present
    <2>8. Unique'
      BY <2>3, <2>5, <2>6, <2>7 DEF Unique, Inv, TypeOK
    <2>. QED BY <2>2, <2>4, <2>8 DEF Inv, TypeOK
  <1>3. CASE ~Present(k) /\ ~(Len(slots) < Cap)
    BY <1>3 DEF Insert, Inv, TypeOK, Unique
  <1>. QED BY <1>1, <1>2, <1>3

THEOREM SwapRemoveInv == ASSUME Inv, NEW i \in 1..Len(slots), SwapRemove(i) PROVE Inv'
  <1> DEFINE n == Len(slots)
  <1>0. n \in Nat /\ n >= 1 /\ slots \in Seq(Keys) BY DEF Inv, TypeOK
  <1>1. slots' = [j \in 1..(n - 1) |-> IF j = i THEN slots[n] ELSE slots[j]] BY DEF SwapRemove
  <1>2. slots' \in Seq(Keys) /\ Len(slots') = n - 1
    BY <1>0, <1>1
  <1>3. Len(slots') <= Cap BY <1>2, <1>0, CapNat DEF Inv
  <1>4. \A j \in 1..(n - 1) : slots'[j] = IF j = i THEN slots[n] ELSE slots[j] BY <1>1
  <1>5. Unique'
    BY <1>0, <1>2, <1>4 DEF Unique, Inv
  <1>. QED BY <1>2, <1>3, <1>5 DEF Inv, TypeOK

THEOREM PopBackInv == ASSUME Inv, PopBack PROVE Inv'
  <1> DEFINE n == Len(slots)
  <1>0. n \in Nat /\ n >= 1 /\ slots \in Seq(Keys) BY DEF Inv, TypeOK, PopBack
  <1>1. slots' = [j \in 1..(n - 1) |-> slots[j]] BY DEF PopBack
  <1>2. slots' \in Seq(Keys) /\ Len(slots') = n - 1 BY <1>0, <1>1
  <1>3. \A j \in 1..(n - 1) : slots'[j] = slots[j] BY <1>1
  <1>4. Unique' BY <1>0, <1>2, <1>3 DEF Unique, Inv
  <1>. QED BY <1>2, <1>4, <1>0, CapNat DEF Inv, TypeOK

THEOREM ClearInv == ASSUME Inv, Clear PROVE Inv'
  BY CapNat DEF Clear, Inv, TypeOK, Unique

THEOREM NextInv == Inv /\ [Next]_slots => Inv'
  <1> SUFFICES ASSUME Inv, [Next]_slots PROVE Inv' OBVIOUS
  <1>1. CASE \E k \in Keys : Insert(k) BY <1>1, InsertInv
  <1>2. CASE \E i \in 1..Len(slots) : SwapRemove(i) BY <1>2, SwapRemoveInv
  <1>3. CASE PopBack BY <1>3, PopBackInv
  <1>4. CASE Clear BY <1>4, ClearInv
  <1>5. CASE UNCHANGED slots BY <1>5 DEF Inv, TypeOK, Unique
  <1>. QED BY <1>1, <1>2, <1>3, <1>4, <1>5 DEF Next

THEOREM Safety == Init /\ [][Next]_slots => []Inv
  BY InitInv, NextInv, PTL

(***************************************************************************)
(* Refinement of the ideal SET of keys, unbounded: each slot-level step     *)
(* changes the abstraction  Ks = {slots[i]}  exactly as the ideal operation *)
(* does (the induction step behind C01 / C07 for the key part; values ride  *)
(* along in the same slots).                                                *)
(***************************************************************************)
Ks == {slots[i] : i \in 1..Len(slots)}

THEOREM InsertRef == ASSUME Inv, NEW k \in Keys, Insert(k)
                     PROVE  Ks' = IF Present(k) \/ Len(slots) < Cap THEN Ks \cup {k} ELSE Ks
  <1>0. slots \in Seq(Keys) /\ Len(slots) \in Nat BY DEF Inv, TypeOK
  <1>1. CASE Present(k)
    <2>1. slots' = slots BY <1>1 DEF Insert
    <2>2. k \in Ks BY <1>1 DEF Present, Ks
    <2>. QED BY <1>1, <2>1, <2>2 DEF Ks
  <1>2. CASE ~Present(k) /\ Len(slots) < Cap
    <2>1. slots' = Append(slots, k) BY <1>2 DEF Insert
    <2>2. Len(slots') = Len(slots) + 1 BY <2>1, <1>0
    <2>3. \A i \in 1..Len(slots) : slots'[i] = slots[i] BY <2>1, <1>0
    <2>4. slots'[Len(slots) + 1] = k BY <2>1, <1>0
    <2>5. Ks' = {slots'[i] : i \in 1..(Len(slots) + 1)} BY <2>2 DEF Ks
    <2>6. Ks' = Ks \cup {k}
      <3>1. ASSUME NEW x \in Ks' PROVE x \in Ks \cup {k}
        <4>1. PICK i \in 1..(Len(slots) + 1) : x = slots'[i] BY <2>5
        <4>2. CASE i = Len(slots) + 1 BY <4>1, <4>2, <2>4
        <4>3. CASE i \in 1..Len(slots) BY <4>1, <4>3, <2>3 DEF Ks
        <4>. QED BY <4>2, <4>3, <1>0
      <3>2. ASSUME NEW x \in Ks \cup {k} PROVE x \in Ks'
        <4>1. CASE x = k BY <4>1, <2>4, <2>5, <1>0
        <4>2. CASE x \in Ks
          <5>1. PICK i \in 1..Len(slots) : x = slots[i] BY <4>2 DEF Ks
          <5>2. i \in 1..(Len(slots) + 1) BY <1>0
          <5>. QED BY <5>1, <5>2, <2>3, <2>5
        <4>. QED BY <4>1, <4>2
      <3>. QED BY <3>1, <3>2
    <2>. QED BY <1>2, <2>6
  <1>3. CASE ~Present(k) /\ ~(Len(slots) < Cap)
    <2>1. slots' = slots BY <1>3 DEF Insert
    <2>. QED BY <1>3, <2>1 DEF Ks
  <1>. QED BY <1>1, <1>2, <1>3

THEOREM SwapRemoveRef == ASSUME Inv, NEW i \in 1..Len(slots), SwapRemove(i)
                         PROVE  Ks' = Ks \ {slots[i]}
  <1> DEFINE n == Len(slots)
  <1>0. n \in Nat /\ n >= 1 /\ slots \in Seq(Keys) /\ i \in 1..n BY DEF Inv, TypeOK
  <1>1. slots' = [j \in 1..(n - 1) |-> IF j = i THEN slots[n] ELSE slots[j]] BY DEF SwapRemove
  <1>2. Len(slots') = n - 1 BY <1>0, <1>1
  <1>3. \A j \in 1..(n - 1) : slots'[j] = IF j = i THEN slots[n] ELSE slots[j] BY <1>1
  <1>4. Ks' = {slots'[j] : j \in 1..(n - 1)} BY <1>2 DEF Ks
  <1>u. \A a, b \in 1..n : slots[a] = slots[b] => a = b BY DEF Inv, Unique
  <1>5. ASSUME NEW x \in Ks' PROVE x \in Ks \ {slots[i]}
    <2>1. PICK j \in 1..(n - 1) : x = slots'[j] BY <1>4
    <2>2. CASE j = i
      <3>1. x = slots[n] BY <2>1, <2>2, <1>3
      <3>2. n # i BY <2>2, <1>0
      <3>3. slots[n] # slots[i] BY <3>2, <1>u, <1>0
      <3>. QED BY <3>1, <3>3, <1>0 DEF Ks
    <2>3. CASE j # i
      <3>1. x = slots[j] BY <2>1, <2>3, <1>3
      <3>2. j \in 1..n BY <1>0
      <3>3. slots[j] # slots[i] BY <2>3, <3>2, <1>u, <1>0
      <3>. QED BY <3>1, <3>2, <3>3 DEF Ks
    <2>. QED BY <2>2, <2>3
  <1>6. ASSUME NEW x \in Ks \ {slots[i]} PROVE x \in Ks'
    <2>1. PICK j \in 1..n : x = slots[j] BY DEF Ks
    <2>2. j # i BY <2>1
    <2>3. CASE j = n
      <3>1. i \in 1..(n - 1) BY <2>2, <2>3, <1>0
      <3>2. slots'[i] = slots[n] BY <3>1, <1>3
      <3>. QED BY <2>1, <2>3, <3>1, <3>2, <1>4
    <2>4. CASE j # n
      <3>1. j \in 1..(n - 1) BY <2>4, <1>0
      <3>2. slots'[j] = slots[j] BY <3>1, <2>2, <1>3
      <3>. QED BY <2>1, <3>1, <3>2, <1>4
    <2>. QED BY <2>3, <2>4
  <1>. QED BY <1>5, <1>6

THEOREM PopBackRef == ASSUME Inv, PopBack PROVE Ks' = Ks \ {slots[Len(slots)]}
  <1> DEFINE n == Len(slots)
  <1>0. n \in Nat /\ n >= 1 /\ slots \in Seq(Keys) BY DEF Inv, TypeOK, PopBack
  <1>1. slots' = [j \in 1..(n - 1) |-> slots[j]] BY DEF PopBack
  <1>2. Len(slots') = n - 1 BY <1>0, <1>1
  <1>3. \A j \in 1..(n - 1) : slots'[j] = slots[j] BY <1>1
  <1>4. Ks' = {slots'[j] : j \in 1..(n - 1)} BY <1>2 DEF Ks
  <1>u. \A a, b \in 1..n : slots[a] = slots[b] => a = b BY DEF Inv, Unique
  <1>5. ASSUME NEW x \in Ks' PROVE x \in Ks \ {slots[n]}
    <2>1. PICK j \in 1..(n - 1) : x = slots'[j] BY <1>4
    <2>2. x = slots[j] /\ j \in 1..n /\ j # n BY <2>1, <1>3, <1>0
    <2>3. slots[j] # slots[n] BY <2>2, <1>u, <1>0
    <2>. QED BY <2>2, <2>3 DEF Ks
  <1>6. ASSUME NEW x \in Ks \ {slots[n]} PROVE x \in Ks'
    <2>1. PICK j \in 1..n : x = slots[j] BY DEF Ks
    <2>2. j # n BY <2>1
    <2>3. j \in 1..(n - 1) BY <2>2, <1>0
    <2>. QED BY <2>1, <2>3, <1>3, <1>4
  <1>. QED BY <1>5, <1>6

THEOREM ClearRef == ASSUME Clear PROVE Ks' = {}
  BY DEF Clear, Ks

\* lookups scan the live prefix: a key is found iff it is in the abstraction
THEOREM LookupRef == ASSUME NEW k PROVE Present(k) <=> k \in Ks
  BY DEF Present, Ks
=============================================================================
