---------------------------- MODULE MapProofPanic ----------------------------
(***************************************************************************)
(* TLAPS, unbounded capacity: the exception-safety core of C04.  User code  *)
(* (Drop, Clone, Eq, a closure) runs BETWEEN the steps of an operation and  *)
(* may panic there; the container is then left exactly as that step left    *)
(* it.  So a container stays well-formed under every panic iff              *)
(*     WF == every slot in 1..len holds a live element                      *)
(* holds after EVERY step at which user code can run.  The steps below are  *)
(* the ones of the crate after the three `fix:` commits (section 9 of       *)
(* DESIGN.md), in the order the code performs them:                         *)
(*   clear        len := 0 FIRST, then drop slot by slot                    *)
(*   remove+drop  take the pair out, move the last pair into the hole,      *)
(*                len -= 1 - and only then drop the pair taken out          *)
(*                (retain, remove, Entry::remove)                           *)
(*   clone        clone key and value, write the slot, and only then count  *)
(*                it in the copy's len                                      *)
(*   append       write the slot, then len += 1 (no user code in between)   *)
(*   pop          len -= 1, then hand the pair out (IntoIter::next, drain)  *)
(* `live` is the set of slot indices that hold a live element, `tlive` /    *)
(* `tlen` the same for the half-built clone.  PInv (which contains WF for   *)
(* both containers) is inductive for ANY capacity: whichever step user code *)
(* panics after, both containers can be used and dropped.  Elements beyond  *)
(* len that are still live (clear, interrupted) are leaked - which C04      *)
(* tolerates.  The pre-fix orders are not provable (tools/selftest.py).     *)
(***************************************************************************)
EXTENDS Integers, TLAPS

CONSTANT Cap
ASSUME CapNat == Cap \in Nat

VARIABLES len, live, pc, n, i, tlen, tlive

vars == <<len, live, pc, n, i, tlen, tlive>>

WF == \A x \in 1..len : x \in live
WFT == \A x \in 1..tlen : x \in tlive
PInv ==
  /\ len \in Nat /\ tlen \in Nat /\ i \in Nat /\ n \in Nat
  /\ pc \in {"idle", "clear", "rem", "clone", "clone_w", "app"}
  /\ WF /\ WFT
  /\ pc \in {"clone", "clone_w"} => tlen = i - 1 /\ i >= 1
  /\ pc = "clear" => len = 0

Init == len = 0 /\ live = {} /\ pc = "idle" /\ n = 0 /\ i = 1 /\ tlen = 0 /\ tlive = {}

\* ---- clear (map.rs): len = 0 first; every drop is a point where user code runs
ClearStart == pc = "idle" /\ n' = len /\ len' = 0 /\ i' = 1 /\ pc' = "clear" /\ UNCHANGED <<live, tlen, tlive>>
ClearDrop == pc = "clear" /\ i <= n /\ live' = live \ {i} /\ i' = i + 1 /\ UNCHANGED <<len, pc, n, tlen, tlive>>
ClearEnd == pc = "clear" /\ i > n /\ pc' = "idle" /\ UNCHANGED <<len, live, n, i, tlen, tlive>>

\* ---- remove_index_read(x) then drop: unlink completely, then run the destructor
RemUnlink(x) ==
  /\ pc = "idle" /\ x \in 1..len
  /\ live' = IF x = len THEN live \ {x} ELSE live \ {len}       \* (the last pair moves into the hole: x stays live)
  /\ len' = len - 1
  /\ pc' = "rem" /\ UNCHANGED <<n, i, tlen, tlive>>
RemDrop == pc = "rem" /\ pc' = "idle" /\ UNCHANGED <<len, live, n, i, tlen, tlive>>     \* the destructor of the pair taken out

\* ---- clone (clone.rs): a pair is counted only after it has been written
CloneStart == pc = "idle" /\ tlen' = 0 /\ tlive' = {} /\ i' = 1 /\ pc' = "clone" /\ UNCHANGED <<len, live, n>>
CloneUser == pc = "clone" /\ i <= len /\ pc' = "clone_w" /\ UNCHANGED <<len, live, n, i, tlen, tlive>>   \* K::clone, V::clone run
CloneWrite == pc = "clone_w" /\ tlive' = tlive \cup {i} /\ tlen' = i /\ i' = i + 1 /\ pc' = "clone" /\ UNCHANGED <<len, live, n>>
CloneEnd == pc = "clone" /\ i > len /\ pc' = "idle" /\ UNCHANGED <<len, live, n, i, tlen, tlive>>

\* ---- insert (append): the scan runs user comparisons, the write is not interrupted
AppendScan == pc = "idle" /\ len < Cap /\ pc' = "app" /\ UNCHANGED <<len, live, n, i, tlen, tlive>>
AppendWrite == pc = "app" /\ live' = live \cup {len + 1} /\ len' = len + 1 /\ pc' = "idle" /\ UNCHANGED <<n, i, tlen, tlive>>

\* ---- IntoIter::next / Drain::next: the pair leaves the container before the caller sees it
Pop == pc = "idle" /\ len > 0 /\ len' = len - 1 /\ live' = live \ {len} /\ UNCHANGED <<pc, n, i, tlen, tlive>>

\* ---- user code panics: the operation in progress is abandoned, nothing else changes
\* (a half-built clone is dropped: its WFT is what makes that drop sound)
Abandon == pc # "idle" /\ pc' = "idle" /\ UNCHANGED <<len, live, n, i, tlen, tlive>>

Next ==
  \/ ClearStart \/ ClearDrop \/ ClearEnd
  \/ (\E x \in 1..len : RemUnlink(x)) \/ RemDrop
  \/ CloneStart \/ CloneUser \/ CloneWrite \/ CloneEnd
  \/ AppendScan \/ AppendWrite \/ Pop \/ Abandon

THEOREM InitInv == Init => PInv
  BY DEF Init, PInv, WF, WFT

THEOREM NextInv == ASSUME PInv, Next PROVE PInv'
  <1>0. len \in Nat /\ tlen \in Nat /\ i \in Nat /\ n \in Nat BY DEF PInv
  <1>w. WF /\ WFT BY DEF PInv
  <1>1. CASE ClearStart BY <1>1, <1>0, <1>w DEF ClearStart, PInv, WF, WFT
  <1>2. CASE ClearDrop
    \* (the slots being dropped lie beyond len, which is 0 throughout)
    <2>1. pc = "clear" /\ pc' = "clear" /\ len' = len /\ live' = live \ {i} /\ i' = i + 1 /\ n' = n /\ tlen' = tlen /\ tlive' = tlive
      BY <1>2 DEF ClearDrop
    <2>2. len = 0 BY <2>1 DEF PInv
    <2>3. WF' BY <2>1, <2>2 DEF WF
    <2>. QED BY <2>1, <2>2, <2>3, <1>0, <1>w DEF PInv, WFT
  <1>3. CASE ClearEnd BY <1>3, <1>0, <1>w DEF ClearEnd, PInv, WF, WFT
  <1>4. CASE \E x \in 1..len : RemUnlink(x)
    <2>1. PICK x \in 1..len : RemUnlink(x) BY <1>4
    <2>2. len' = len - 1 /\ live' = (IF x = len THEN live \ {x} ELSE live \ {len}) /\ pc' = "rem"
          /\ tlen' = tlen /\ tlive' = tlive /\ i' = i /\ n' = n BY <2>1 DEF RemUnlink
    <2>3. WF'
      <3> SUFFICES ASSUME NEW y \in 1..(len - 1) PROVE y \in live' BY <2>2 DEF WF
      <3>1. y \in live /\ y # len BY <1>w, <1>0 DEF WF
      <3>. QED BY <3>1, <2>2
    <2>. QED BY <2>2, <2>3, <1>0, <1>w DEF PInv, WFT
  <1>5. CASE RemDrop BY <1>5, <1>0, <1>w DEF RemDrop, PInv, WF, WFT
  <1>6. CASE CloneStart BY <1>6, <1>0, <1>w DEF CloneStart, PInv, WF, WFT
  <1>7. CASE CloneUser BY <1>7, <1>0, <1>w DEF CloneUser, PInv, WF, WFT
  <1>8. CASE CloneWrite
    <2>1. pc = "clone_w" /\ tlive' = tlive \cup {i} /\ tlen' = i /\ i' = i + 1 /\ pc' = "clone"
          /\ len' = len /\ live' = live /\ n' = n BY <1>8 DEF CloneWrite
    <2>2. tlen = i - 1 /\ i >= 1 BY <2>1 DEF PInv
    <2>3. WFT'
      <3> SUFFICES ASSUME NEW y \in 1..i PROVE y \in tlive \cup {i} BY <2>1 DEF WFT
      <3>1. CASE y = i BY <3>1
      <3>2. CASE y \in 1..(i - 1) BY <3>2, <2>2, <1>w DEF WFT
      <3>. QED BY <3>1, <3>2, <1>0
    <2>. QED BY <2>1, <2>2, <2>3, <1>0, <1>w DEF PInv, WF
  <1>9. CASE CloneEnd BY <1>9, <1>0, <1>w DEF CloneEnd, PInv, WF, WFT
  <1>10. CASE AppendScan BY <1>10, <1>0, <1>w DEF AppendScan, PInv, WF, WFT
  <1>11. CASE AppendWrite
    <2>1. live' = live \cup {len + 1} /\ len' = len + 1 /\ pc' = "idle" /\ tlen' = tlen /\ tlive' = tlive /\ i' = i /\ n' = n
      BY <1>11 DEF AppendWrite
    <2>2. WF'
      <3> SUFFICES ASSUME NEW y \in 1..(len + 1) PROVE y \in live \cup {len + 1} BY <2>1 DEF WF
      <3>1. CASE y = len + 1 BY <3>1
      <3>2. CASE y \in 1..len BY <3>2, <1>w DEF WF
      <3>. QED BY <3>1, <3>2, <1>0
    <2>. QED BY <2>1, <2>2, <1>0, <1>w DEF PInv, WFT
  <1>12. CASE Pop
    <2>1. len > 0 /\ len' = len - 1 /\ live' = live \ {len} /\ pc' = pc /\ tlen' = tlen /\ tlive' = tlive /\ i' = i /\ n' = n
      BY <1>12 DEF Pop
    <2>2. WF'
      <3> SUFFICES ASSUME NEW y \in 1..(len - 1) PROVE y \in live \ {len} BY <2>1 DEF WF
      <3>1. y \in live /\ y # len BY <1>w, <1>0 DEF WF
      <3>. QED BY <3>1
    <2>. QED BY <2>1, <2>2, <1>0, <1>w DEF PInv, WFT
  <1>13. CASE Abandon BY <1>13, <1>0, <1>w DEF Abandon, PInv, WF, WFT
  <1>. QED BY <1>1, <1>2, <1>3, <1>4, <1>5, <1>6, <1>7, <1>8, <1>9, <1>10, <1>11, <1>12, <1>13 DEF Next
=============================================================================
