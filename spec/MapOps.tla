------------------------------ MODULE MapOps ------------------------------
(***************************************************************************)
(* One operator per public call of micromap::Map / micromap::Set, built    *)
(* from the transcribed internals of Map.tla exactly the way the public    *)
(* function is built from the internal ones.  Apply(ts, cap, op) is the    *)
(* complete effect of one call (or of one properly scoped cursor / entry   *)
(* episode) on the tagged slot sequence ts of a container of capacity cap. *)
(*                                                                         *)
(* An op is a record; op.name selects the call, the other fields are its   *)
(* arguments:  k = key object [kt,c,r], v = value object [vt,v],           *)
(* c = class looked up, form = 0 (by &K) / 1 (by borrowed &Q), w = content *)
(* written through a returned &mut (NoWrite = none), keep = classes a      *)
(* retain predicate keeps, n = items taken from a cursor, end = "drop" /   *)
(* "forget", kind = cursor kind, m = entry method, ks = requested classes, *)
(* items = sequence of [k, v] for bulk construction.                       *)
(***************************************************************************)
EXTENDS Map

UnitVal == [vt |-> 0, v |-> 0]          \* the () value of Set<T,N> = Map<T,(),N>
FreshTag == 31                          \* first object created by V::default() during a call

\* ------------------------------------------------------------- inserts --
OpInsert(ts, cap, k, v) ==              \* map.rs insert
  LET r == InsertII(ts, cap, k, v, FALSE) IN
  IF r.panic THEN Res(<<"panic">>, ts, {k.kt}, {v.vt})
  ELSE IF r.existing = <<>> THEN Res(<<"none">>, r.post, {}, {})
  ELSE Res(RVal(r.existing[2]), r.post, {r.existing[1].kt}, {})

OpInsertKeyValue(ts, cap, k, v) ==      \* map.rs insert_key_value
  LET r == InsertII(ts, cap, k, v, TRUE) IN
  IF r.panic THEN Res(<<"panic">>, ts, {k.kt}, {v.vt})
  ELSE IF r.existing = <<>> THEN Res(<<"none">>, r.post, {}, {})
  ELSE Res(<<"ent">> \o JKey(r.existing[1]) \o JVal(r.existing[2]), r.post, {}, {})

OpCheckedInsert(ts, cap, k, v) ==       \* map.rs checked_insert
  IF Len(ts) < cap THEN
    LET r == InsertII(ts, cap, k, v, FALSE) IN
    IF r.existing = <<>> THEN Res(<<"some_none">>, r.post, {}, {})
    ELSE Res(<<"some_val">> \o JVal(r.existing[2]), r.post, {r.existing[1].kt}, {})
  ELSE
    LET r == InsertIIForFull(ts, k, v, FALSE) IN
    IF r.found THEN Res(<<"some_val">> \o JVal(r.existing[2]), r.post, {r.existing[1].kt}, {})
    ELSE Res(<<"none">>, ts, {k.kt}, {v.vt})

UncheckedPre(ts, cap, k) == Len(ts) < cap \/ Find(ts, k.c) # 0
OpInsertUnchecked(ts, cap, k, v) ==     \* map.rs insert_unchecked (contract: UncheckedPre)
  LET r == InsertI(ts, k, v, FALSE) IN
  IF r.existing = <<>> THEN Res(<<"none">>, r.post, {}, {})
  ELSE Res(RVal(r.existing[2]), r.post, {r.existing[1].kt}, {})

\* ------------------------------------------------------------- lookups --
OpGet(ts, c) ==
  LET i == Find(ts, c) IN IF i = 0 THEN Res(<<"none">>, ts, {}, {}) ELSE Res(REntV(ts[i]), ts, {}, {})
OpGetKeyValue(ts, c) ==
  LET i == Find(ts, c) IN IF i = 0 THEN Res(<<"none">>, ts, {}, {}) ELSE Res(REnt(ts[i]), ts, {}, {})
OpContainsKey(ts, c) == Res(<<"b", Find(ts, c) # 0>>, ts, {}, {})
WriteAt(ts, i, w) == IF w = NoWrite THEN ts ELSE [ts EXCEPT ![i].v = w]
OpGetMut(ts, c, w) ==
  LET i == Find(ts, c) IN
  IF i = 0 THEN Res(<<"none">>, ts, {}, {}) ELSE Res(REntV(ts[i]), WriteAt(ts, i, w), {}, {})
OpIndex(ts, c) ==                        \* index.rs: expect() -> panic iff absent
  LET i == Find(ts, c) IN IF i = 0 THEN Res(<<"panic">>, ts, {}, {}) ELSE Res(REntV(ts[i]), ts, {}, {})
OpIndexMut(ts, c, w) ==
  LET i == Find(ts, c) IN IF i = 0 THEN Res(<<"panic">>, ts, {}, {}) ELSE Res(REntV(ts[i]), WriteAt(ts, i, w), {}, {})

\* ------------------------------------------------------------ removals --
OpRemove(ts, c) ==
  LET i == Find(ts, c) IN
  IF i = 0 THEN Res(<<"none">>, ts, {}, {})
  ELSE Res(REntV(ts[i]), SwapRemove(ts, i), {ts[i].kt}, {})
OpRemoveEntry(ts, c) ==
  LET i == Find(ts, c) IN
  IF i = 0 THEN Res(<<"none">>, ts, {}, {})
  ELSE Res(REnt(ts[i]), SwapRemove(ts, i), {}, {})
OpRetain(ts, keep, w) ==
  LET r == RetainLoop(ts, 1, keep, w, {}) IN
  Res(<<"unit">>, r.post, {e.kt : e \in r.gone}, {e.vt : e \in r.gone})
OpClear(ts) == Res(<<"unit">>, <<>>, KTags(ts), VTags(ts))
\* ctors.rs:68-74  Drop for Map: every live slot is destroyed; the step continues with a new empty container
OpDrop(ts) == Res(<<"unit">>, <<>>, KTags(ts), VTags(ts))

\* ctors.rs: Default::default() / new() / the deprecated with_capacity(c), which asserts c == N.
\* The step replaces the container by the newly made one (the old one is dropped).
OpDefault(ts) == Res(<<"unit">>, <<>>, KTags(ts), VTags(ts))
OpWithCapacity(ts, cap, c) == IF c = cap THEN Res(<<"unit">>, <<>>, KTags(ts), VTags(ts)) ELSE Res(<<"panic">>, ts, {}, {})
\* iterators.rs / keys.rs / values.rs: the Default iterators are empty and stay empty
OpIterDefaults(ts) == Res(<<"lens", <<0, 0, 0, 0, 0, 0, 0, 0>>>>, ts, {}, {})

\* ------------------------------------------------------------- cursors --
BorrowKinds  == {"iter", "iter_mut", "keys", "values", "values_mut"}
ConsumeKinds == {"into_iter", "into_keys", "into_values"}
MutKinds     == {"iter_mut", "values_mut"}
Proj(kind, e) ==
  CASE kind \in {"iter", "iter_mut", "into_iter", "drain"} -> JEnt(e)
    [] kind \in {"keys", "into_keys"}                       -> JEntK(e)
    [] kind \in {"values", "values_mut", "into_values"}     -> JEntV(e)
ProjSeq(kind, s) == [i \in 1..Len(s) |-> Proj(kind, s[i])]

\* How the rest of a cursor is consumed after n plain next() calls (Iterator's provided
\* methods, which every iterator of the crate inherits or overrides):
\*   fin = "none" | "nth" (with index j) | "last" | "fold" | "find" | "any" | "all" | "position"
\*       | "for_each" | "reduce" | "collect" | "find_map" | "min_by" | "max_by"
\* -> [skipped: consumed silently, taken: handed to the caller, left: still in the cursor]
FinOf(fin, j, rest) ==
  CASE fin = "none" -> [some |-> "nofin", skipped |-> <<>>, taken |-> <<>>, left |-> rest]
    [] fin = "nth"  -> IF j < Len(rest)
                       THEN [some |-> "item", skipped |-> SubSeq(rest, 1, j), taken |-> <<rest[j + 1]>>, left |-> SubSeq(rest, j + 2, Len(rest))]
                       ELSE [some |-> "none", skipped |-> rest, taken |-> <<>>, left |-> <<>>]
    \* find(pred) with the predicate true at index j is nth(j); any / all / position short-circuit at
    \* index j (they consume j + 1 items silently), or run through everything when j is beyond the end
    [] fin = "find" -> IF j < Len(rest)
                       THEN [some |-> "item", skipped |-> SubSeq(rest, 1, j), taken |-> <<rest[j + 1]>>, left |-> SubSeq(rest, j + 2, Len(rest))]
                       ELSE [some |-> "none", skipped |-> rest, taken |-> <<>>, left |-> <<>>]
    [] fin \in {"any", "all", "position"} ->
                       IF j < Len(rest)
                       THEN [some |-> "hit", skipped |-> SubSeq(rest, 1, j + 1), taken |-> <<>>, left |-> SubSeq(rest, j + 2, Len(rest))]
                       ELSE [some |-> "miss", skipped |-> rest, taken |-> <<>>, left |-> <<>>]
    [] fin = "last" -> IF rest # <<>>
                       THEN [some |-> "item", skipped |-> SubSeq(rest, 1, Len(rest) - 1), taken |-> <<rest[Len(rest)]>>, left |-> <<>>]
                       ELSE [some |-> "none", skipped |-> <<>>, taken |-> <<>>, left |-> <<>>]
    [] fin = "fold" -> [some |-> "seq", skipped |-> <<>>, taken |-> rest, left |-> <<>>]
    \* the other provided methods an iterator may override: for_each / reduce / collect hand every remaining
    \* item to the caller (closure, accumulator, FromIterator sink); find_map(f) with f answering at index j
    \* is find; min_by with a comparator that always says Less keeps the FIRST item and consumes the rest,
    \* max_by with the same comparator keeps the LAST one
    [] fin \in {"for_each", "reduce", "collect"} -> [some |-> "seq", skipped |-> <<>>, taken |-> rest, left |-> <<>>]
    [] fin = "find_map" -> IF j < Len(rest)
                       THEN [some |-> "item", skipped |-> SubSeq(rest, 1, j), taken |-> <<rest[j + 1]>>, left |-> SubSeq(rest, j + 2, Len(rest))]
                       ELSE [some |-> "none", skipped |-> rest, taken |-> <<>>, left |-> <<>>]
    [] fin = "min_by" -> IF rest # <<>>
                       THEN [some |-> "item", skipped |-> SubSeq(rest, 2, Len(rest)), taken |-> <<rest[1]>>, left |-> <<>>]
                       ELSE [some |-> "none", skipped |-> <<>>, taken |-> <<>>, left |-> <<>>]
    [] fin = "max_by" -> IF rest # <<>>
                       THEN [some |-> "item", skipped |-> SubSeq(rest, 1, Len(rest) - 1), taken |-> <<rest[Len(rest)]>>, left |-> <<>>]
                       ELSE [some |-> "none", skipped |-> <<>>, taken |-> <<>>, left |-> <<>>]

Episode(kind, order, n, total, f) ==
  [yield |-> ProjSeq(kind, Prefix(order, n)),
   lens  |-> LensFrom(total, n),
   rem   |-> ProjSeq(kind, Suffix(order, n)),
   fin   |-> [some |-> f.some, r |-> ProjSeq(kind, f.taken), after |-> Len(f.left)]]

OpDrain(ts, n, end, fin, j) ==           \* drain.rs: len = 0 up front; Drain::drop drops the rest
  LET order == DrainOrder(ts)
      f == FinOf(fin, j, Suffix(order, n))
      rem == SeqRange(f.left)
      dead == (IF end = "drop" THEN rem ELSE {}) \cup SeqRange(f.skipped)
      leak == IF end = "forget" THEN rem ELSE {}
  IN ResL(Episode("drain", order, n, Len(ts), f), <<>>,
          {e.kt : e \in dead}, {e.vt : e \in dead}, {e.kt : e \in leak}, {e.vt : e \in leak})

OpBorrowCursor(ts, kind, n, w, fin, j) ==   \* slice iterators over pairs[..len]
  LET order == BorrowOrder(ts)
      post == IF kind \in MutKinds /\ w # NoWrite
              THEN [i \in 1..Len(ts) |-> IF i <= n THEN [ts[i] EXCEPT !.v = w] ELSE ts[i]]
              ELSE ts
      \* what is left is rendered / counted after the writes of the first n items
  IN Res(Episode(kind, order, n, Len(ts), FinOf(fin, j, Suffix(order, n))), post, {}, {})

OpConsumeCursor(ts, kind, n, end, fin, j) ==     \* IntoIter: len -= 1; read(len)  -- pops from the back
  LET order == ConsumeOrder(ts)
      f == FinOf(fin, j, Suffix(order, n))
      taken == SeqRange(Prefix(order, n)) \cup SeqRange(f.taken)
      rem == SeqRange(f.left)
      dead == (IF end = "drop" THEN rem ELSE {}) \cup SeqRange(f.skipped)
      leak == IF end = "forget" THEN rem ELSE {}
      dk == {e.kt : e \in dead} \cup (IF kind = "into_values" THEN {e.kt : e \in taken} ELSE {})
      dv == {e.vt : e \in dead} \cup (IF kind = "into_keys" THEN {e.vt : e \in taken} ELSE {})
      \* Debug of IntoIter / IntoKeys / IntoValues renders the remaining map front to back
      shown == ProjSeq(kind, Prefix(ts, Len(ts) - n))
  IN ResL([Episode(kind, order, n, Len(ts), f) EXCEPT !.rem = shown], <<>>, dk, dv, {e.kt : e \in leak}, {e.vt : e \in leak})

\* --------------------------------------------------------------- entry --
EntryMethodsV == {"or_insert", "or_insert_with", "or_insert_with_key", "and_modify",
                  "occ_insert", "vac_insert"}               \* take a value argument
EntryMethodsW == {"and_modify", "occ_get_mut", "occ_into_mut"}  \* write through &mut V
EntryMethods == EntryMethodsV \cup EntryMethodsW \cup
                {"key", "or_default", "occ_key", "occ_get", "occ_remove", "occ_remove_entry",
                 "vac_key", "vac_into_key"}

OpEntry(ts, cap, m, k, v, w) ==          \* entry.rs
  LET i == Find(ts, k.c)
      occ == i # 0
      vdead == IF m \in EntryMethodsV THEN {v.vt} ELSE {}     \* an unused value argument is dropped
      VacInsertP(val, ret, pret) ==       \* VacantEntry::insert -> insert_ii(key, value, false)
        LET r == InsertII(ts, cap, k, val, FALSE) IN
        IF r.panic THEN Res(pret, ts, {k.kt}, {val.vt})
        ELSE Res(ret, r.post, {}, {})
      VacInsert(val, ret) == VacInsertP(val, ret, <<"panic">>)
  IN
  CASE m = "key" ->
         Res(IF occ THEN <<"occk">> \o JEntK(ts[i]) ELSE <<"vack">> \o JKey(k), ts, {k.kt}, {})
    [] m = "or_insert" ->
         IF occ THEN Res(<<"occ">> \o JEntV(ts[i]), ts, {k.kt}, {v.vt})
         ELSE VacInsert(v, <<"vac">> \o JVal(v))
    [] m = "or_insert_with" ->            \* closure runs exactly once iff vacant
         IF occ THEN Res(<<"occ">> \o JEntV(ts[i]) \o <<0>>, ts, {k.kt}, {v.vt})
         ELSE VacInsertP(v, <<"vac">> \o JVal(v) \o <<1>>, <<"panic", 1>>)   \* the closure has run before the overflow panic
    [] m = "or_insert_with_key" ->        \* ... and is handed the entry's own key
         IF occ THEN Res(<<"occ">> \o JEntV(ts[i]) \o <<0, 0, 0, 0>>, ts, {k.kt}, {v.vt})
         ELSE VacInsertP(v, <<"vac">> \o JVal(v) \o <<1>> \o JKey(k), <<"panic", 1>>)
    [] m = "or_default" ->
         IF occ THEN Res(<<"occ">> \o JEntV(ts[i]), ts, {k.kt}, {})
         ELSE VacInsert([vt |-> FreshTag, v |-> 0], <<"vac", FreshTag, 0>>)
    [] m = "and_modify" ->                \* and_modify(|x| *x = w).or_insert(v)
         IF occ THEN Res(<<"occ", ts[i].vt, IF w = NoWrite THEN ts[i].v ELSE w, 1>>, WriteAt(ts, i, w), {k.kt}, {v.vt})
         ELSE VacInsert(v, <<"vac">> \o JVal(v) \o <<0>>)
    [] m \in {"occ_key", "occ_get", "occ_get_mut", "occ_into_mut", "occ_insert", "occ_remove", "occ_remove_entry"} /\ ~occ ->
         Res(<<"vac_skip">>, ts, {k.kt}, vdead)
    [] m \in {"vac_key", "vac_into_key", "vac_insert"} /\ occ ->
         Res(<<"occ_skip">>, ts, {k.kt}, vdead)
    [] m = "occ_key"          -> Res(<<"occk">> \o JEntK(ts[i]), ts, {k.kt}, {})
    [] m = "occ_get"          -> Res(<<"occ">> \o JEntV(ts[i]), ts, {k.kt}, {})
    [] m = "occ_get_mut"      -> Res(<<"occ">> \o JEntV(ts[i]), WriteAt(ts, i, w), {k.kt}, {})
    [] m = "occ_into_mut"     -> Res(<<"occ">> \o JEntV(ts[i]), WriteAt(ts, i, w), {k.kt}, {})
    [] m = "occ_insert"       -> Res(<<"occ">> \o JEntV(ts[i]), [ts EXCEPT ![i] = Mk(KeyOf(ts[i]), v)], {k.kt}, {})
    [] m = "occ_remove"       -> Res(<<"occ">> \o JEntV(ts[i]), SwapRemove(ts, i), {k.kt, ts[i].kt}, {})
    [] m = "occ_remove_entry" -> Res(<<"occ">> \o JEnt(ts[i]), SwapRemove(ts, i), {k.kt}, {})
    [] m = "vac_key"          -> Res(<<"vack">> \o JKey(k), ts, {k.kt}, {})
    [] m = "vac_into_key"     -> Res(<<"vack">> \o JKey(k), ts, {}, {})
    [] m = "vac_insert"       -> VacInsert(v, <<"vac">> \o JVal(v))

\* ------------------------------------------------------ get_disjoint_mut --
DisjointRet(ts, idx) == <<"pos", [j \in 1..Len(idx) |-> IF idx[j] = 0 THEN <<"none">> ELSE REntV(ts[idx[j]])]>>
DisjointPost(ts, idx, w) ==
  IF w = NoWrite THEN ts
  ELSE [i \in 1..Len(ts) |-> IF \E j \in 1..Len(idx) : idx[j] = i THEN [ts[i] EXCEPT !.v = w] ELSE ts[i]]

OpDisjoint(ts, ks, w, unchecked) ==
  IF ~unchecked /\ HasDupKeys(ks) THEN Res(<<"panic">>, ts, {}, {})
  ELSE LET idx == DisjointUnchecked(ts, ks) IN Res(DisjointRet(ts, idx), DisjointPost(ts, idx, w), {}, {})

\* The property only demands a panic when the repeated key is PRESENT; for a
\* repeated absent key the code panics too, but a result equal to the
\* positionwise get_mut (all those positions None) is also acceptable.
OpDisjointAlt(ts, ks, w, unchecked) ==
  IF ~unchecked /\ HasDupKeys(ks) /\ ~HasDupPresent(ts, ks)
  THEN LET idx == [j \in 1..Len(ks) |-> Find(ts, ks[j])] IN
       [ret |-> DisjointRet(ts, idx), post |-> DisjointPost(ts, idx, w)]
  ELSE [ret |-> <<"-">>, post |-> <<>>]

\* --------------------------------------------------- bulk construction --
\* from.rs / set/from.rs / set/extend.rs / serialization.rs: a loop of insert
RECURSIVE FoldInserts(_, _, _, _, _, _)
FoldInserts(ts, cap, items, j, dk, dv) ==
  IF j > Len(items) THEN [panic |-> FALSE, post |-> ts, dk |-> dk, dv |-> dv, pulled |-> Len(items)]
  ELSE LET r == OpInsert(ts, cap, items[j].k, items[j].v) IN
       IF r.ret[1] = "panic"
       THEN [panic |-> TRUE, post |-> ts, dk |-> dk, dv |-> dv, pulled |-> j]
       ELSE \* a displaced old value is returned by insert and dropped by the loop body
            FoldInserts(r.post, cap, items, j + 1, dk \cup r.dk,
                        dv \cup (IF r.ret[1] = "none" THEN {} ELSE {r.ret[2]}))

ItemKTags(items) == {items[j].k.kt : j \in 1..Len(items)}
ItemVTags(items) == {items[j].v.vt : j \in 1..Len(items)}

OpFromIter(cap, items) ==                \* also From<[_; N]> (Len(items) = cap)
  LET f == FoldInserts(<<>>, cap, items, 1, {}, {}) IN
  IF f.panic
  THEN \* unwinding drops the half-built container, the rejected pair and the rest of the source
       Res([r |-> "panic", pulled |-> f.pulled], <<>>, ItemKTags(items), ItemVTags(items))
  ELSE Res([r |-> "ok", pulled |-> f.pulled], f.post, f.dk, f.dv)

OpExtend(ts, cap, items) ==              \* Set::extend: the receiver survives an overflow panic
  LET f == FoldInserts(ts, cap, items, 1, {}, {}) IN
  IF f.panic
  THEN LET rest == SubSeq(items, f.pulled, Len(items)) IN
       Res([r |-> "panic", pulled |-> f.pulled], f.post, f.dk \cup ItemKTags(rest), f.dv \cup ItemVTags(rest))
  ELSE Res([r |-> "ok", pulled |-> f.pulled], f.post, f.dk, f.dv)

\* ---------------------------------------------------------- formatting --
\* debug.rs / display.rs / set/debug.rs / set/display.rs render iter() order
OpFmt(ts) == Res(<<"ents", SeqMap(JEnt, ts)>>, ts, {}, {})

\* ------------------------------------------------------------------ Set --
\* set/methods.rs: every Set method is a projection of a Map<T,(),N> method
NoV(r) == [r EXCEPT !.dv = {}, !.lv = {}]
SOpInsert(ts, cap, k) ==
  LET r == OpInsert(ts, cap, k, UnitVal) IN
  NoV([r EXCEPT !.ret = IF r.ret[1] = "panic" THEN <<"panic">> ELSE <<"b", r.ret[1] = "none">>])   \* .is_none()
SOpReplace(ts, cap, k) ==                \* insert_ii(value, (), true)
  LET r == InsertII(ts, cap, k, UnitVal, TRUE) IN
  IF r.panic THEN Res(<<"panic">>, ts, {k.kt}, {})
  ELSE IF r.existing = <<>> THEN Res(<<"none">>, r.post, {}, {})
  ELSE Res(RKey(r.existing[1]), r.post, {}, {})
SOpContains(ts, c) == OpContainsKey(ts, c)
SOpGet(ts, c) ==                         \* get_key_value(k).map(|p| p.0)
  LET i == Find(ts, c) IN IF i = 0 THEN Res(<<"none">>, ts, {}, {}) ELSE Res(REntK(ts[i]), ts, {}, {})
SOpRemove(ts, c) ==                      \* remove(k).is_some()
  LET r == OpRemove(ts, c) IN NoV([r EXCEPT !.ret = <<"b", r.ret[1] # "none">>])
SOpTake(ts, c) ==                        \* remove_entry(k).map(|p| p.0)
  LET i == Find(ts, c) IN
  IF i = 0 THEN Res(<<"none">>, ts, {}, {}) ELSE Res(REntK(ts[i]), SwapRemove(ts, i), {}, {})
SOpRetain(ts, keep) == NoV(OpRetain(ts, keep, NoWrite))
SOpClear(ts) == NoV(OpClear(ts))
SOpDrain(ts, n, end, fin, j) ==
  LET r == OpDrain(ts, n, end, fin, j) IN
  NoV([r EXCEPT !.ret = Episode("keys", DrainOrder(ts), n, Len(ts), FinOf(fin, j, Suffix(DrainOrder(ts), n)))])
SOpIter(ts, n, fin, j) == OpBorrowCursor(ts, "keys", n, NoWrite, fin, j)
SOpIntoIter(ts, n, end, fin, j) == NoV(OpConsumeCursor(ts, "into_keys", n, end, fin, j))
SOpExtend(ts, cap, items) == NoV(OpExtend(ts, cap, items))
SOpFromIter(cap, items) == NoV(OpFromIter(cap, items))

\* ---------------------------------------------------------------- clone --
\* clone.rs: every live slot is cloned, in slot order, into a fresh container of the
\* same capacity: one clone per key object and per value object (tags 20 + source tag)
CloneOf(ts) ==
  [i \in 1..Len(ts) |-> [ts[i] EXCEPT !.kt = 20 + ts[i].kt, !.vt = IF ts[i].vt = 0 THEN 0 ELSE 20 + ts[i].vt]]

\* the small catalogue of follow-up operations used to show that the copies are independent
ApplySub(ts, cap, op) ==
  CASE op.name = "none"     -> Res(<<"unit">>, ts, {}, {})
    [] op.name = "insert"   -> OpInsert(ts, cap, op.k, op.v)
    [] op.name = "remove"   -> OpRemove(ts, op.c)
    [] op.name = "get_mut"  -> OpGetMut(ts, op.c, op.w)
    [] op.name = "clear"    -> OpClear(ts)
    [] op.name = "s_insert" -> SOpInsert(ts, cap, op.k)
    [] op.name = "s_remove" -> SOpRemove(ts, op.c)
    [] op.name = "s_clear"  -> SOpClear(ts)

\* clone, then one operation on one of the two copies, then the non-survivor is dropped
OpClone(ts, cap, then, on, survivor) ==
  LET cl == CloneOf(ts)
      r == ApplySub(IF on = "orig" THEN ts ELSE cl, cap, then)
      origPost == IF on = "orig" THEN r.post ELSE ts
      copyPost == IF on = "copy" THEN r.post ELSE cl
      keep == IF survivor = "orig" THEN origPost ELSE copyPost
      gone == IF survivor = "orig" THEN copyPost ELSE origPost
  IN Res([cl |-> SeqMap(JEnt, cl), then |-> r.ret, other |-> SeqMap(JEnt, IF on = "orig" THEN cl ELSE ts)],
         keep, r.dk \cup KTags(gone), r.dv \cup (VTags(gone) \ {0}))

\* Clone::clone_from (the default: *self = source.clone()): a destination holding the entries
\* dst (objects 60 + i) is overwritten with a clone of the container; its old entries are
\* destroyed; the destination is then observed, compared with the source and dropped
DstTag(dst) == [i \in 1..Len(dst) |-> [c |-> dst[i].c, r |-> dst[i].r, v |-> dst[i].v, kt |-> 60 + i, vt |-> 60 + i]]
OpCloneFrom(ts, dst, unitVals) ==
  LET cl == CloneOf(ts)
      d == DstTag(dst) IN
  Res([cl |-> SeqMap(JEnt, cl), eq |-> TRUE], ts,
      KTags(d) \cup KTags(cl), IF unitVals THEN {} ELSE VTags(d) \cup VTags(cl))

\* ---------------------------------------------------------------- serde --
\* serialization.rs / set/serialization.rs: announce len(), emit the entries in slot
\* order; the visitor builds a fresh container by a loop of insert (objects 40 + j)
SerEntries(ts) == [j \in 1..Len(ts) |-> [k |-> [kt |-> 40 + j, c |-> ts[j].c, r |-> ts[j].r],
                                          v |-> [vt |-> IF ts[j].vt = 0 THEN 0 ELSE 40 + j, v |-> ts[j].v]]]
OpSerde(ts, m) ==
  LET f == FoldInserts(<<>>, m, SerEntries(ts), 1, {}, {}) IN
  Res([announced |-> Len(ts), emitted |-> Len(ts),
       de |-> IF f.panic THEN <<>> ELSE [j \in 1..Len(f.post) |-> <<0, f.post[j].c, f.post[j].r, 0, f.post[j].v>>],
       ok |-> ~f.panic, eq |-> ~f.panic /\ EqMaps(f.post, ts)], ts, {}, {})

\* Decoding a HAND-MADE stream (not the container's own output): the visitor is a loop of insert, so
\* the decoded container is the fold of inserts over the stream's entries - repeated keys collapse, the
\* last value wins, the first key object (visible through its version field) is kept; a stream with more
\* distinct keys than the target holds is refused (by the panic of insert). The container under test
\* plays no role and is unchanged.
OpDeItems(ts, cap, items) ==
  LET f == FoldInserts(<<>>, cap, items, 1, {}, {}) IN
  Res([ok |-> ~f.panic,
       de |-> IF f.panic THEN <<>> ELSE [j \in 1..Len(f.post) |-> <<0, f.post[j].c, f.post[j].r, 0, f.post[j].v>>]],
      ts, {}, {})

\* ------------------------------------------------------------ dispatch --
Apply(ts, cap, op) ==
  CASE op.name = "insert"           -> OpInsert(ts, cap, op.k, op.v)
    [] op.name = "insert_key_value" -> OpInsertKeyValue(ts, cap, op.k, op.v)
    [] op.name = "checked_insert"   -> OpCheckedInsert(ts, cap, op.k, op.v)
    [] op.name = "insert_unchecked" -> OpInsertUnchecked(ts, cap, op.k, op.v)
    [] op.name = "get"              -> OpGet(ts, op.c)
    [] op.name = "get_key_value"    -> OpGetKeyValue(ts, op.c)
    [] op.name = "contains_key"     -> OpContainsKey(ts, op.c)
    [] op.name = "get_mut"          -> OpGetMut(ts, op.c, op.w)
    [] op.name = "index"            -> OpIndex(ts, op.c)
    [] op.name = "index_mut"        -> OpIndexMut(ts, op.c, op.w)
    [] op.name = "remove"           -> OpRemove(ts, op.c)
    [] op.name = "remove_entry"     -> OpRemoveEntry(ts, op.c)
    [] op.name = "retain"           -> OpRetain(ts, op.keep, op.w)
    [] op.name = "clear"            -> OpClear(ts)
    [] op.name = "drop"             -> OpDrop(ts)
    [] op.name = "default"          -> OpDefault(ts)
    [] op.name = "s_default"        -> NoV(OpDefault(ts))
    [] op.name = "with_capacity"    -> OpWithCapacity(ts, cap, op.c)
    [] op.name = "iter_defaults"    -> OpIterDefaults(ts)
    [] op.name = "s_drop"           -> NoV(OpDrop(ts))
    [] op.name = "drain"            -> OpDrain(ts, op.n, op.end, op.fin, op.j)
    [] op.name = "cursor" /\ op.kind \in BorrowKinds  -> OpBorrowCursor(ts, op.kind, op.n, op.w, op.fin, op.j)
    [] op.name = "cursor" /\ op.kind \in ConsumeKinds -> OpConsumeCursor(ts, op.kind, op.n, op.end, op.fin, op.j)
    [] op.name = "entry"            -> OpEntry(ts, cap, op.m, op.k, op.v, op.w)
    [] op.name = "disjoint"         -> OpDisjoint(ts, op.ks, op.w, op.unchecked)
    [] op.name = "from_iter"        -> OpFromIter(cap, op.items)
    [] op.name = "from_array"       -> OpFromIter(cap, op.items)
    [] op.name = "fmt"              -> OpFmt(ts)
    [] op.name = "s_insert"         -> SOpInsert(ts, cap, op.k)
    [] op.name = "s_replace"        -> SOpReplace(ts, cap, op.k)
    [] op.name = "s_contains"       -> SOpContains(ts, op.c)
    [] op.name = "s_get"            -> SOpGet(ts, op.c)
    [] op.name = "s_remove"         -> SOpRemove(ts, op.c)
    [] op.name = "s_take"           -> SOpTake(ts, op.c)
    [] op.name = "s_retain"         -> SOpRetain(ts, op.keep)
    [] op.name = "s_clear"          -> SOpClear(ts)
    [] op.name = "s_drain"          -> SOpDrain(ts, op.n, op.end, op.fin, op.j)
    [] op.name = "s_iter"           -> SOpIter(ts, op.n, op.fin, op.j)
    [] op.name = "s_into_iter"      -> SOpIntoIter(ts, op.n, op.end, op.fin, op.j)
    [] op.name = "s_extend"         -> SOpExtend(ts, cap, op.items)
    [] op.name = "s_from_iter"      -> SOpFromIter(cap, op.items)
    [] op.name = "s_from_array"     -> SOpFromIter(cap, op.items)
    [] op.name = "s_fmt"            -> OpFmt(ts)
    [] op.name = "clone"            -> OpClone(ts, cap, op.then, op.on, op.survivor)
    [] op.name = "clone_from"       -> OpCloneFrom(ts, op.dst, FALSE)
    [] op.name = "s_clone_from"     -> OpCloneFrom(ts, op.dst, TRUE)
    [] op.name = "serde"            -> OpSerde(ts, op.m)
    [] op.name = "de_items"         -> OpDeItems(ts, cap, op.stream)

AltOf(ts, cap, op) ==
  IF op.name = "disjoint" THEN OpDisjointAlt(ts, op.ks, op.w, op.unchecked)
  ELSE [ret |-> <<"-">>, post |-> <<>>]
=============================================================================
