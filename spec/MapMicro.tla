------------------------------ MODULE MapMicro ------------------------------
(***************************************************************************)
(* Callback-granular ("micro") model of micromap's slot memory.            *)
(*                                                                         *)
(* State = len + the state of every slot (uninitialised / live / moved-out *)
(* / dropped) of the container under test A and of the temporary container *)
(* T a running call may own (clone target, collect target, the map inside  *)
(* a consuming iterator), plus the program counter and the locals of the   *)
(* running call.  One action per step of the code between two user         *)
(* callbacks; at every callback the model branches:                        *)
(*   - the callback returns (a key comparison with its lawful truth value, *)
(*     or - Adv = TRUE - with EITHER truth value), or                      *)
(*   - budget > 0: it PANICS; control goes to "unwind", which destroys the *)
(*     locals the way Rust's drop glue does and returns to idle.           *)
(* Safety (C02, C04, C17) is the invariant Safe: no slot access outside    *)
(* the live prefix, nothing destroyed twice, len never covers a non-live   *)
(* slot when control is back at the caller, references handed out together *)
(* are distinct live slots, len <= Cap.                                    *)
(*                                                                         *)
(* Every completed call is printed (Emit) as one JSON line: state, op,     *)
(* panic position k, the callback sequence, the comparison script, the     *)
(* outcome and the survivors.  The Rust harness replays each line into     *)
(* the real crate (harness/src/micro.rs).                                  *)
(***************************************************************************)
EXTENDS Naturals, Sequences, FiniteSets, TLC, Json

CONSTANTS Cap,       \* capacity
          Classes,   \* key classes
          Adv,       \* BOOLEAN: key comparisons may return anything
          Budget,    \* injected panics per call: 0 or 1
          Mode,      \* "map" | "set"
          Fams,      \* operation families explored
          MaxJ,      \* longest get_disjoint_mut request
          MaxItems,  \* longest bulk source
          Emit

VARIABLES A, T, pc, L, budget, viol, hist
vars == <<A, T, pc, L, budget, viol, hist>>

IsMap == Mode = "map"
NoWrite == 99

\* ------------------------------------------------------------------ data --
Blank == [st |-> "u", c |-> 0, kt |-> 0, vt |-> 0]
LiveSlot(c, kt, vt) == [st |-> "l", c |-> c, kt |-> kt, vt |-> vt]
Fresh == [len |-> 0, s |-> [i \in 1..Cap |-> Blank]]
NoT == [len |-> 0, s |-> <<>>]            \* "no temporary container"
HasT == T # NoT

\* positional tags at the start of every call; spare slots hold nothing
Canon(C) == [len |-> C.len,
             s |-> [i \in 1..Cap |-> IF i <= C.len THEN [C.s[i] EXCEPT !.st = "l", !.kt = i, !.vt = IF IsMap THEN i ELSE 0]
                                     ELSE Blank]]
WellFormed(C) == C.len <= Cap /\ \A i \in 1..C.len : C.s[i].st = "l"
LeakedIn(C) == {i \in 1..Cap : i > C.len /\ C.s[i].st = "l"}

\* callback records <<kind, a, b>> : kinds as logged by the harness' ledger
\*  e Key==Key   q Class==Class (borrowed form)   v Val==Val   c clone   d drop
\*  p retain predicate   f entry closure   n source next   u Default
Cb(kind, a, b) == <<kind, a, b>>
\* in callback records a value object with tag t is written 100 + t (key and value tags overlap)
VT(t) == 100 + t
DropK(t) == Cb("d", t, 0)
DropV(t) == Cb("d", VT(t), 0)
\* destroying a pair runs the key's destructor, then the value's (a Set has unit values)
PairDrops(kt, vt) == IF IsMap THEN <<DropK(kt), DropV(vt)>> ELSE <<DropK(kt)>>
\* locals are records [t |-> "k" | "v", id]; unit values are not objects
LocalDrops(own) == [i \in 1..Len(own) |-> IF own[i].t = "k" THEN DropK(own[i].id) ELSE DropV(own[i].id)]
KObj(id) == [t |-> "k", id |-> id]
VObj(id) == [t |-> "v", id |-> id]
VLocals(vt) == IF IsMap THEN <<VObj(vt)>> ELSE <<>>

Note(v, ok, msg) == IF v = "none" /\ ~ok THEN msg ELSE v

\* destroying the live prefix of a container (ctors.rs Drop for Map), slots from..len
RECURSIVE ContDrops(_, _)
ContDrops(C, from) == IF from > C.len THEN <<>> ELSE PairDrops(C.s[from].kt, C.s[from].vt) \o ContDrops(C, from + 1)
ContAllLive(C, from) == \A i \in from..C.len : C.s[i].st = "l"

\* map.rs remove_index_read: read slot i out, len -= 1, move the last live slot into the hole
RIR(C, i) ==
  LET n == C.len
      c1 == [C EXCEPT !.s[i].st = "m", !.len = n - 1]
  IN IF i # n THEN [c1 EXCEPT !.s[i] = C.s[n], !.s[n].st = "m"] ELSE c1
RIROk(C, i) == i >= 1 /\ i <= C.len /\ C.s[i].st = "l" /\ C.s[C.len].st = "l"

EqOutcomes(lawful) == IF Adv THEN {TRUE, FALSE} ELSE {lawful}
MayPanic == budget > 0

\* ---------------------------------------------------------------- locals --
\* one fixed-shape record; fields are used by the phases that need them
L0 == [op |-> [name |-> "none"], out |-> "ok", own |-> <<>>, found |-> 0, script |-> <<>>,
       sc |-> [on |-> "A", i |-> 1, kind |-> "e", sf |-> TRUE, ot |-> 0, qc |-> 0, ret |-> "idle"],
       ii |-> [on |-> "A", k |-> [kt |-> 0, c |-> 0], vt |-> 0, upd |-> FALSE, full |-> FALSE, ret |-> "idle"],
       ex |-> <<>>, idx |-> 0,
       i |-> 1, j |-> 1, n0 |-> 0, lo |-> 1, hi |-> 0, left |-> 0,
       dp |-> [cbs |-> <<>>, ret |-> "idle", then |-> "none"],
       stack |-> <<>>, refs |-> <<>>, src |-> <<>>, phase |-> "", pre |-> <<>>, soft |-> "",
       b |-> [len |-> 0, s |-> <<>>],          \* the second operand of a binary operation (read-only)
       fa |-> [x |-> "A", y |-> "B", stopHit |-> FALSE, i |-> 1, exit |-> "b_done"], seg |-> 1,
       res |-> <<>>]                           \* what the call returns, where the model says (binary operations)

On(name) == IF name = "A" THEN A ELSE IF name = "B" THEN L.b ELSE T
\* (updates of the container a phase works on are written out per action)

Panic(l, out) == [l EXCEPT !.out = IF l.out = "ok" THEN out ELSE l.out]

\* the boolean a comparison / predicate returns (!= is the negation of ==)
BoolRes(op, x) == <<"b", IF op.name = "b_eq" /\ op.ne THEN ~x ELSE x>>

\* =================================================================== ops ==
ArgK(j, c) == [kt |-> 10 + j, c |-> c, r |-> 0]
ArgV(j) == [vt |-> IF IsMap THEN 10 + j ELSE 0, v |-> 0]
KeysIn(C) == {C.s[i].c : i \in 1..C.len}

CoreOps ==
  IF IsMap THEN
    {[name |-> nm, k |-> ArgK(1, c), v |-> ArgV(1)] : nm \in {"insert", "insert_key_value", "checked_insert"}, c \in Classes}
    \cup {[name |-> nm, c |-> c, form |-> f] : nm \in {"get", "get_key_value", "contains_key", "index", "remove", "remove_entry"}, c \in Classes, f \in {0, 1}}
    \cup {[name |-> nm, c |-> c, form |-> f, w |-> NoWrite] : nm \in {"get_mut", "index_mut"}, c \in Classes, f \in {1}}
    \cup {[name |-> "retain", keep |-> K, w |-> NoWrite] : K \in SUBSET Classes}
    \cup {[name |-> "clear"], [name |-> "drop"]}
    \cup {[name |-> "drain", n |-> n, end |-> e, fin |-> "none", j |-> 0] : n \in 0..A.len, e \in {"drop", "forget"}}
  ELSE
    {[name |-> nm, k |-> ArgK(1, c)] : nm \in {"s_insert", "s_replace"}, c \in Classes}
    \cup {[name |-> nm, c |-> c, form |-> f] : nm \in {"s_contains", "s_get", "s_remove", "s_take"}, c \in Classes, f \in {0, 1}}
    \cup {[name |-> "s_retain", keep |-> K] : K \in SUBSET Classes}
    \cup {[name |-> "s_clear"], [name |-> "s_drop"]}
    \cup {[name |-> "s_drain", n |-> n, end |-> e, fin |-> "none", j |-> 0] : n \in 0..A.len, e \in {"drop", "forget"}}

EntryTakesV == {"or_insert", "or_insert_with", "or_insert_with_key", "and_modify", "occ_insert", "vac_insert"}
EntryMethods == EntryTakesV \cup {"key", "or_default", "occ_key", "occ_get", "occ_get_mut", "occ_into_mut", "occ_remove",
                                   "occ_remove_entry", "vac_key", "vac_into_key"}
EntryOps == IF IsMap THEN {[name |-> "entry", m |-> m, k |-> ArgK(1, c), v |-> ArgV(1), w |-> NoWrite] : m \in EntryMethods, c \in Classes} ELSE {}
UncheckedOps ==
  IF IsMap /\ ~Adv
  THEN {[name |-> "insert_unchecked", k |-> ArgK(1, c), v |-> ArgV(1)] : c \in {c \in Classes : A.len < Cap \/ c \in KeysIn(A)}}
  ELSE {}

KeySeqs == UNION {[1..j -> Classes] : j \in 0..MaxJ}
NoDup(q) == \A i, j \in 1..Len(q) : q[i] = q[j] => i = j
DisjointOps ==
  IF IsMap THEN {[name |-> "disjoint", ks |-> q, w |-> NoWrite, unchecked |-> FALSE] : q \in KeySeqs}
               \cup (IF Adv THEN {} ELSE {[name |-> "disjoint", ks |-> q, w |-> NoWrite, unchecked |-> TRUE] : q \in {q \in KeySeqs : NoDup(q)}})
  ELSE {}
CursorOps ==
  IF IsMap THEN {[name |-> "cursor", kind |-> kd, n |-> n, w |-> NoWrite, end |-> e, fin |-> "none", j |-> 0] :
                    kd \in {"into_iter", "into_keys", "into_values"}, n \in 0..A.len, e \in {"drop", "forget"}}
  ELSE {[name |-> "s_into_iter", n |-> n, end |-> e, fin |-> "none", j |-> 0] : n \in 0..A.len, e \in {"drop", "forget"}}
Item(j, c) == [k |-> ArgK(j, c), v |-> ArgV(j)]
ItemSeqs == UNION {{[j \in 1..n |-> Item(j, cs[j])] : cs \in [1..n -> Classes]} : n \in 0..MaxItems}
BulkOps ==
  IF IsMap THEN (IF A.len = 0 THEN {[name |-> nm, items |-> it] : nm \in {"from_iter"}, it \in ItemSeqs}
                                  \cup {[name |-> "from_array", items |-> it] : it \in {x \in ItemSeqs : Len(x) = Cap}} ELSE {})
  ELSE {[name |-> "s_extend", items |-> it] : it \in ItemSeqs}
       \cup (IF A.len = 0 THEN {[name |-> "s_from_iter", items |-> it] : it \in ItemSeqs}
                                \cup {[name |-> "s_from_array", items |-> it] : it \in {x \in ItemSeqs : Len(x) = Cap}} ELSE {})
DstSeqs == {<<>>} \cup (IF Cap >= 1 THEN {<<[c |-> c, r |-> 0, v |-> 0]>> : c \in Classes} ELSE {})
           \cup (IF Cap >= 2 THEN {x \in {<<[c |-> c, r |-> 0, v |-> 0], [c |-> d, r |-> 0, v |-> 0]>> : c \in Classes, d \in Classes} : x[1].c # x[2].c} ELSE {})
CloneFromNames == {"clone_from", "s_clone_from"}
CloneOps == {[name |-> "clone", then |-> [name |-> "none"], on |-> "orig", survivor |-> sv] : sv \in {"orig", "copy"}}
            \cup {[name |-> IF IsMap THEN "clone_from" ELSE "s_clone_from", dst |-> d] : d \in DstSeqs}

\* binary operations of Set (set/eq.rs, set/methods.rs, the lazy adaptors, set/sub.rs) against a second
\* set holding the classes b (its key objects are 50 + i)
BSeqs == {q \in UNION {[1..j -> Classes] : j \in 0..Cap} : Adv \/ NoDup(q)}
BinaryNames == {"b_eq", "b_pred", "b_alg", "b_sub"}
BinaryOps ==
  IF IsMap       \* eq.rs: == and != against a second map (key objects 50 + i, value objects 50 + i with contents bv; ours hold 0)
  THEN UNION {{[name |-> "b_eq", b |-> q, bv |-> vs, ne |-> ne] : vs \in [1..Len(q) -> {0, 1}], ne \in BOOLEAN} : q \in BSeqs}
  ELSE UNION {
    {[name |-> "b_eq", b |-> q, ne |-> ne] : ne \in BOOLEAN} \cup {[name |-> "b_sub", b |-> q]}
    \cup {[name |-> "b_pred", p |-> pp, b |-> q] : pp \in {"is_subset", "is_superset", "is_disjoint"}}
    \cup {[name |-> "b_alg", kind |-> kd, n |-> n, b |-> q] :
            kd \in {"union", "intersection", "difference", "symmetric_difference"}, n \in {0, 1, A.len + Len(q)}} : q \in BSeqs}

AllOps == (IF "binary" \in Fams THEN BinaryOps ELSE {}) \cup (IF "core" \in Fams THEN CoreOps ELSE {}) \cup (IF "entry" \in Fams THEN EntryOps ELSE {})
          \cup (IF "unchecked" \in Fams THEN UncheckedOps ELSE {}) \cup (IF "disjoint" \in Fams THEN DisjointOps ELSE {})
          \cup (IF "cursor" \in Fams THEN CursorOps ELSE {}) \cup (IF "bulk" \in Fams THEN BulkOps ELSE {})
          \cup (IF "clone" \in Fams THEN CloneOps ELSE {})

\* ------------------------------------------------------------ start/end --
\* which scan an op starts with: <<kind, stored-first, other tag, class>>
LookupNames == {"get", "get_key_value", "contains_key", "index", "get_mut", "index_mut", "remove", "remove_entry",
                "s_contains", "s_get", "s_remove", "s_take"}
InsertNames == {"insert", "insert_key_value", "checked_insert", "s_insert", "s_replace"}

StartScan(l, on, kind, sf, ot, qc, ret) ==
  [l EXCEPT !.sc = [on |-> on, i |-> 1, kind |-> kind, sf |-> sf, ot |-> ot, qc |-> qc, ret |-> ret]]
StartII(l, on, k, vt, upd, full, ret) ==
  [StartScan(l, on, "e", TRUE, k.kt, k.c, "ii_after") EXCEPT
     !.ii = [on |-> on, k |-> [kt |-> k.kt, c |-> k.c], vt |-> vt, upd |-> upd, full |-> full, ret |-> ret],
     !.own = VLocals(vt) \o <<KObj(k.kt)>>]

Start(op) ==
  /\ pc = "idle"
  /\ budget' = Budget /\ hist' = <<>> /\ UNCHANGED <<A, viol>>
  /\ T' = IF op.name = "b_sub" THEN Fresh ELSE T
  /\ LET l == [L0 EXCEPT !.op = op, !.pre = [i \in 1..A.len |-> <<A.s[i].c, 0, 0>>]] IN
     CASE op.name \in LookupNames ->
            /\ pc' = "scan"
            /\ L' = StartScan(l, "A", IF op.form = 0 THEN "e" ELSE "q", TRUE, 0, op.c, "lk_after")
       [] op.name \in InsertNames ->
            /\ pc' = "scan"
            /\ L' = StartII(l, "A", op.k, IF IsMap THEN op.v.vt ELSE 0, op.name \in {"insert_key_value", "s_replace"},
                            op.name = "checked_insert" /\ A.len >= Cap, "ins_tail")
       [] op.name = "entry" ->
            /\ pc' = "scan"
            /\ L' = [StartScan(l, "A", "e", TRUE, op.k.kt, op.k.c, "en_after") EXCEPT
                       !.own = <<KObj(op.k.kt)>> \o (IF op.m \in EntryTakesV THEN <<VObj(op.v.vt)>> ELSE <<>>)]
       [] op.name = "insert_unchecked" ->
            /\ pc' = "iu" /\ L' = [l EXCEPT !.own = <<VObj(op.v.vt), KObj(op.k.kt)>>]
       [] op.name \in BinaryNames ->
            LET bb == [len |-> Len(op.b), s |-> [i \in 1..Len(op.b) |-> LiveSlot(op.b[i], 50 + i, IF IsMap THEN 50 + i ELSE 0)]]
                l2 == [l EXCEPT !.b = bb, !.soft = "b_done"]
                no == [l2 EXCEPT !.res = BoolRes(op, FALSE)] IN
            (CASE op.name = "b_eq" ->
                   IF A.len # bb.len THEN pc' = "b_done" /\ L' = no
                   ELSE pc' = "fa" /\ L' = [l2 EXCEPT !.fa = [x |-> "A", y |-> "B", stopHit |-> FALSE, i |-> 1, exit |-> "b_done"]]
              [] op.name = "b_pred" ->
                   (CASE op.p = "is_subset" ->
                          IF A.len <= bb.len THEN pc' = "fa" /\ L' = [l2 EXCEPT !.fa = [x |-> "A", y |-> "B", stopHit |-> FALSE, i |-> 1, exit |-> "b_done"]]
                          ELSE pc' = "b_done" /\ L' = no
                     [] op.p = "is_superset" ->
                          IF bb.len <= A.len THEN pc' = "fa" /\ L' = [l2 EXCEPT !.fa = [x |-> "B", y |-> "A", stopHit |-> FALSE, i |-> 1, exit |-> "b_done"]]
                          ELSE pc' = "b_done" /\ L' = no
                     [] op.p = "is_disjoint" ->
                          IF A.len <= bb.len THEN pc' = "fa" /\ L' = [l2 EXCEPT !.fa = [x |-> "A", y |-> "B", stopHit |-> TRUE, i |-> 1, exit |-> "b_done"]]
                          ELSE pc' = "fa" /\ L' = [l2 EXCEPT !.fa = [x |-> "B", y |-> "A", stopHit |-> TRUE, i |-> 1, exit |-> "b_done"]])
              [] op.name = "b_alg" -> pc' = "ba" /\ L' = [l2 EXCEPT !.seg = 1, !.i = 1, !.left = op.n, !.phase = IF op.n = 0 THEN "fold" ELSE "next", !.soft = "ba_soft", !.res = <<"n", 0>>]
              [] op.name = "b_sub" -> pc' = "bs" /\ L' = [l2 EXCEPT !.seg = 1, !.i = 1, !.soft = ""])
       [] op.name = "disjoint" ->
            /\ L' = [l EXCEPT !.i = 1, !.j = IF op.unchecked THEN 1 ELSE 2]
            /\ pc' = IF Len(op.ks) = 0 THEN "done" ELSE IF op.unchecked THEN "dj_main" ELSE "dj_pre"
       [] op.name \in {"cursor", "s_into_iter"} -> pc' = "ci0" /\ L' = l
       [] op.name \in {"from_iter", "from_array", "s_from_iter", "s_from_array", "s_extend"} -> pc' = "bk0" /\ L' = l
       [] op.name = "clone" -> pc' = "cl0" /\ L' = l
       [] op.name \in CloneFromNames ->      \* the destination (objects 60 + i) is held in L.b
            pc' = "cl0" /\ L' = [l EXCEPT !.b = [len |-> Len(op.dst),
                                                  s |-> [i \in 1..Cap |-> IF i <= Len(op.dst) THEN LiveSlot(op.dst[i].c, 60 + i, IF IsMap THEN 60 + i ELSE 0) ELSE Blank]]]
       [] op.name \in {"retain", "s_retain"} -> pc' = "rt" /\ L' = l
       [] op.name \in {"clear", "s_clear"}   -> pc' = "clr0" /\ L' = l
       [] op.name \in {"drop", "s_drop"}     -> pc' = "drp" /\ L' = l
       [] op.name \in {"drain", "s_drain"}   -> pc' = "dr0" /\ L' = l

\* the call is over (normally, by a container-raised panic or by an injected one)
Survivors(C) == [i \in 1..C.len |-> <<C.s[i].kt, C.s[i].c, C.s[i].vt>>]
Record ==
  [n |-> Cap, s |-> L.pre, o |-> L.op,
   k |-> IF L.out = "injected" THEN Budget - budget ELSE 0,  \* 1 if a panic was injected
   at |-> L.n0, cb |-> hist, script |-> L.script, out |-> L.out, ret |-> L.res]

Finish ==
  /\ pc = "done"
  /\ pc' = "idle"
  /\ LET AA == IF L.phase = "gone" THEN Fresh ELSE A IN      \* a consumed container is replaced by a new empty one
     /\ viol' = Note(Note(viol, WellFormed(AA), "len covers a slot that holds no live element"),
                     L.out # "ok" \/ L.phase = "leaky" \/ (LeakedIn(AA) = {} /\ ~HasT), "an element was leaked by a call that did not panic")
     /\ A' = Canon(AA)
  /\ T' = NoT /\ L' = L0 /\ hist' = <<>> /\ budget' = 0

\* ============================================================ sub-machines ==
\* ---- linear scan of the live prefix (map.rs lookups, insert_ii, entry) ----
SetOn(on, C) == IF on = "A" THEN A' = C /\ UNCHANGED T ELSE T' = C /\ UNCHANGED A

\* an injected panic unwinds the call; when the harness runs the episode as several caught calls
\* (L.soft # ""), it only ends the current one and the episode goes on at L.soft
PanicTo == IF L.soft # "" THEN L.soft ELSE "unwind"
Inject == /\ MayPanic /\ budget' = budget - 1 /\ pc' = PanicTo /\ L' = [Panic(L, "injected") EXCEPT !.n0 = Len(hist) + 1]

ScanStep ==
  /\ pc = "scan"
  /\ LET C == On(L.sc.on)
         i == L.sc.i IN
     IF i > C.len
     THEN pc' = L.sc.ret /\ L' = [L EXCEPT !.found = 0] /\ UNCHANGED <<A, T, budget, viol, hist>>
     ELSE LET sl == C.s[i] IN
          /\ hist' = Append(hist, IF L.sc.sf THEN Cb(L.sc.kind, sl.kt, L.sc.ot) ELSE Cb(L.sc.kind, L.sc.ot, sl.kt))
          /\ viol' = Note(viol, i <= Cap /\ sl.st = "l", "a key comparison read a slot that holds no live element")
          /\ UNCHANGED <<A, T>>
          /\ \/ Inject
             \/ /\ UNCHANGED budget
                /\ \E b \in EqOutcomes(sl.c = L.sc.qc) :
                     IF b THEN pc' = L.sc.ret /\ L' = [L EXCEPT !.found = i, !.script = Append(@, b)]
                     ELSE pc' = "scan" /\ L' = [L EXCEPT !.sc.i = i + 1, !.script = Append(@, b)]

\* ---- map.rs insert_ii / insert_ii_for_full, after its scan ----------------
\* L.ex = <<>> (None) or <<key tag, value tag>> (the displaced parts handed back);
\* L.idx = slot written; the locals k, v have been consumed unless the call panics
IIAfter ==
  /\ pc = "ii_after"
  /\ UNCHANGED <<budget, hist>>
  /\ LET C == On(L.ii.on)
         i == L.found IN
     IF i # 0 THEN
       /\ viol' = Note(viol, C.s[i].st = "l", "insert replaced a slot that holds no live element")
       /\ IF L.ii.upd
          THEN /\ SetOn(L.ii.on, [C EXCEPT !.s[i] = LiveSlot(L.ii.k.c, L.ii.k.kt, L.ii.vt)])
               /\ L' = [L EXCEPT !.ex = <<C.s[i].kt, C.s[i].vt>>, !.idx = i, !.own = <<>>]
          ELSE /\ SetOn(L.ii.on, [C EXCEPT !.s[i].vt = L.ii.vt])
               /\ L' = [L EXCEPT !.ex = <<L.ii.k.kt, C.s[i].vt>>, !.idx = i, !.own = <<>>]
       /\ pc' = L.ii.ret
     ELSE IF L.ii.full THEN          \* insert_ii_for_full: replace only
       /\ pc' = L.ii.ret /\ L' = [L EXCEPT !.ex = <<>>, !.idx = 0] /\ UNCHANGED <<A, T, viol>>
     ELSE IF C.len >= Cap THEN       \* debug_assert / the bounds check of self.pairs[i]: panics, nothing written
       /\ pc' = "unwind" /\ L' = Panic(L, "panic") /\ UNCHANGED <<A, T, viol>>
     ELSE
       /\ SetOn(L.ii.on, [C EXCEPT !.s[C.len + 1] = LiveSlot(L.ii.k.c, L.ii.k.kt, L.ii.vt), !.len = C.len + 1])
       /\ L' = [L EXCEPT !.ex = <<>>, !.idx = C.len + 1, !.own = <<>>] /\ pc' = L.ii.ret /\ UNCHANGED viol

\* ---- destroying locals: callbacks one after the other, a panic in one of them
\* still runs the destructors of the others (drop glue / unwinding) ----------
\* L.dp = [cbs, ret, then]: cbs = the destructor callbacks to run now
DropStep ==
  /\ pc = "dropping"
  /\ UNCHANGED <<A, T, viol>>
  /\ \/ /\ UNCHANGED budget /\ pc' = L.dp.ret /\ L' = L /\ hist' = hist \o L.dp.cbs
     \/ /\ MayPanic /\ L.dp.cbs # <<>> /\ budget' = budget - 1
        /\ \E p \in 1..Len(L.dp.cbs) :
             /\ L' = [Panic(L, "injected") EXCEPT !.n0 = Len(hist) + p]
             \* "glue": the remaining destructors still run (fields of one pair, locals of one frame);
             \* "seq": separate statements - what comes after the panicking one does not happen
             /\ hist' = hist \o (IF L.dp.then = "seq" THEN SubSeq(L.dp.cbs, 1, p) ELSE L.dp.cbs)
        /\ pc' = PanicTo
GoDrop(l, cbs, ret) == [l EXCEPT !.dp = [cbs |-> cbs, ret |-> ret, then |-> "glue"]]
GoDropSeq(l, cbs, ret) == [l EXCEPT !.dp = [cbs |-> cbs, ret |-> ret, then |-> "seq"]]

\* ---- unwinding: the locals still owned are destroyed, then a temporary
\* container, then control is back at the caller ---------------------------
Unwind ==
  /\ pc = "unwind"
  /\ UNCHANGED <<budget, A>>
  /\ hist' = hist \o LocalDrops(L.own) \o (IF HasT THEN ContDrops(T, 1) ELSE <<>>)
  /\ viol' = Note(viol, ~HasT \/ ContAllLive(T, 1), "unwinding destroyed a slot of a half-built container that holds no live element")
  /\ T' = NoT
  /\ IF L.op.name \in CloneFromNames      \* (the harness still drops the untouched destination, in a call of its own)
     THEN pc' = "cf_drop" /\ L' = [L EXCEPT !.own = <<>>, !.i = 1, !.soft = "cf_gone"]
     ELSE pc' = "done" /\ L' = [L EXCEPT !.own = <<>>]

\* ================================================================ op tails ==
LookupAfter ==
  /\ pc = "lk_after"
  /\ UNCHANGED <<budget, T>>
  /\ LET nm == L.op.name
         i == L.found IN
     IF nm \in {"remove", "remove_entry", "s_remove", "s_take"} /\ i # 0 THEN
       /\ viol' = Note(viol, RIROk(A, i), "swap-remove read a slot that holds no live element")
       /\ A' = RIR(A, i)
       /\ IF nm \in {"remove", "s_remove"}    \* `Some(pair.1)`: the value sits in the return place when the key part is
                                             \* destroyed; if that destructor panics the value is leaked, not destroyed
          THEN pc' = "dropping" /\ L' = GoDrop(L, <<DropK(A.s[i].kt)>>, "done") /\ UNCHANGED hist
          ELSE pc' = "done" /\ L' = L /\ UNCHANGED hist
     ELSE IF nm \in {"index", "index_mut"} /\ i = 0 THEN      \* index.rs expect(): container-raised panic
       pc' = "done" /\ L' = Panic(L, "panic") /\ UNCHANGED <<A, viol, hist>>
     ELSE
       /\ viol' = Note(viol, i = 0 \/ (i <= A.len /\ A.s[i].st = "l"), "a lookup returned a slot that holds no live element")
       /\ pc' = "done" /\ L' = L /\ UNCHANGED <<A, hist>>

\* insert / checked_insert / Set::insert: existing_pair.map(|(_, v)| v) destroys the key part
InsertTail ==
  /\ pc = "ins_tail"
  /\ UNCHANGED <<A, T, budget, viol, hist>>
  /\ IF L.ex = <<>> THEN
       IF L.op.name = "checked_insert" /\ L.ii.full    \* None: key and value are dropped by the callee
       THEN pc' = "dropping" /\ L' = GoDrop([L EXCEPT !.own = <<>>], LocalDrops(VLocals(L.ii.vt) \o <<KObj(L.ii.k.kt)>>), "done")
       ELSE pc' = "done" /\ L' = L
     ELSE IF L.op.name \in {"insert_key_value", "s_replace"} THEN pc' = "done" /\ L' = L
     ELSE pc' = "dropping" /\ L' = GoDrop(L, <<DropK(L.ex[1])>>, "done")   \* (the displaced value is in the return place: leaked if this panics)

\* map.rs retain: predicate on a live slot; removal = remove_index_read, then drop the pair
RetainStep ==
  /\ pc = "rt"
  /\ UNCHANGED T
  /\ LET i == L.i IN
     IF i > A.len THEN pc' = "done" /\ L' = L /\ UNCHANGED <<A, budget, viol, hist>>
     ELSE LET sl == A.s[i] IN
          /\ hist' = Append(hist, Cb("p", sl.kt, IF IsMap THEN VT(sl.vt) ELSE 0))
          /\ viol' = Note(viol, i <= Cap /\ sl.st = "l", "retain ran its predicate on a slot that holds no live element")
          /\ \/ Inject /\ UNCHANGED A
             \/ /\ UNCHANGED budget
                /\ IF sl.c \in L.op.keep THEN pc' = "rt" /\ L' = [L EXCEPT !.i = i + 1] /\ UNCHANGED A
                   ELSE /\ A' = RIR(A, i)
                        /\ pc' = "dropping" /\ L' = GoDrop(L, PairDrops(sl.kt, sl.vt), "rt")

\* map.rs clear: len = 0 first, then every slot of the old prefix is destroyed
ClearStart ==
  /\ pc = "clr0" /\ pc' = "clr"
  /\ A' = [A EXCEPT !.len = 0] /\ L' = [L EXCEPT !.hi = A.len, !.i = 1]
  /\ UNCHANGED <<T, budget, viol, hist>>
ClearStep ==
  /\ pc = "clr"
  /\ UNCHANGED <<T, budget>>
  /\ IF L.i > L.hi THEN pc' = "done" /\ L' = L /\ UNCHANGED <<A, viol, hist>>
     ELSE /\ viol' = Note(viol, A.s[L.i].st = "l", "clear destroyed a slot that holds no live element")
          /\ A' = [A EXCEPT !.s[L.i].st = "d"]
          /\ pc' = "dropping" /\ L' = GoDrop([L EXCEPT !.i = @ + 1], PairDrops(A.s[L.i].kt, A.s[L.i].vt), "clr")
          /\ UNCHANGED hist

\* ctors.rs Drop for Map: the container is gone afterwards (the harness puts a fresh one in its place)
DropStepC ==
  /\ pc = "drp"
  /\ UNCHANGED <<T, budget>>
  /\ IF L.i > A.len THEN pc' = "done" /\ L' = [L EXCEPT !.phase = "gone"] /\ UNCHANGED <<A, viol, hist>>
     ELSE /\ viol' = Note(viol, A.s[L.i].st = "l", "Drop destroyed a slot that holds no live element")
          /\ A' = [A EXCEPT !.s[L.i].st = "d"]
          /\ pc' = "dropping" /\ L' = GoDrop([L EXCEPT !.i = @ + 1, !.phase = "gone"], PairDrops(A.s[L.i].kt, A.s[L.i].vt), "drp")
          /\ UNCHANGED hist

\* drain.rs: capture pairs[0..len], len = 0; next moves items out front to back;
\* Drain::drop destroys the rest; count() (the harness' other way to end) folds over next
DrainStart ==
  /\ pc = "dr0"
  /\ A' = [A EXCEPT !.len = 0]
  /\ L' = [L EXCEPT !.lo = 1, !.hi = A.len, !.left = L.op.n, !.phase = "leaky"]
  /\ pc' = "dr_next" /\ UNCHANGED <<T, budget, viol, hist>>
DrainNext ==
  /\ pc = "dr_next"
  /\ UNCHANGED <<T, budget, hist>>
  /\ IF L.left > 0 /\ L.lo <= L.hi THEN
       /\ viol' = Note(viol, A.s[L.lo].st = "l", "Drain::next moved out a slot that holds no live element")
       /\ A' = [A EXCEPT !.s[L.lo].st = "m"]
       /\ L' = [L EXCEPT !.lo = @ + 1, !.left = @ - 1] /\ pc' = "dr_next"
     ELSE /\ UNCHANGED <<A, viol>> /\ L' = L /\ pc' = "dr_dbg"
\* the harness then renders the Drain with {:?} (drain.rs Debug: the not-yet-yielded pairs);
\* a panic inside a formatter is caught there and the episode goes on
FmtCbs(C, lo, hi) ==
  LET RECURSIVE F(_)
      F(i) == IF i > hi THEN <<>> ELSE (IF IsMap THEN <<Cb("t", C.s[i].kt, 0), Cb("t", VT(C.s[i].vt), 0)>> ELSE <<>>) \o F(i + 1)
  IN F(lo)
DrainDebug ==
  /\ pc = "dr_dbg"
  /\ UNCHANGED <<A, T>>
  /\ LET cbs == FmtCbs(A, L.lo, L.hi)
         nxt == IF L.op.end = "forget" THEN "done" ELSE IF L.op.n % 2 = 1 THEN "dr_count" ELSE "dr_drop" IN
     /\ viol' = Note(viol, \A i \in L.lo..L.hi : A.s[i].st = "l", "Debug of a Drain rendered a slot that holds no live element")
     /\ pc' = nxt
     /\ \/ /\ hist' = hist \o cbs /\ L' = L /\ UNCHANGED budget
        \/ /\ MayPanic /\ budget' = budget - 1
           /\ \E p \in 1..Len(cbs) : hist' = hist \o SubSeq(cbs, 1, p) /\ L' = [Panic(L, "injected") EXCEPT !.n0 = Len(hist) + p]
DrainDrop ==      \* Drain::drop: for pair in &mut self.iter { assume_init_drop }
  /\ pc = "dr_drop"
  /\ UNCHANGED <<T, budget>>
  /\ IF L.lo > L.hi THEN pc' = "done" /\ L' = L /\ UNCHANGED <<A, viol, hist>>
     ELSE /\ viol' = Note(viol, A.s[L.lo].st = "l", "Drain::drop destroyed a slot that holds no live element")
          /\ A' = [A EXCEPT !.s[L.lo].st = "d"]
          /\ pc' = "dropping" /\ L' = GoDrop([L EXCEPT !.lo = @ + 1], PairDrops(A.s[L.lo].kt, A.s[L.lo].vt), "dr_drop")
          /\ UNCHANGED hist
DrainCount ==     \* Iterator::count = fold over next: each item is destroyed by the fold closure
  /\ pc = "dr_count"
  /\ UNCHANGED <<T, budget>>
  /\ IF L.lo > L.hi THEN pc' = "done" /\ L' = L /\ UNCHANGED <<A, viol, hist>>
     ELSE /\ viol' = Note(viol, A.s[L.lo].st = "l", "Drain::next moved out a slot that holds no live element")
          /\ A' = [A EXCEPT !.s[L.lo].st = "m"]
          /\ pc' = "dropping" /\ L' = GoDrop([L EXCEPT !.lo = @ + 1, !.phase = "count"], PairDrops(A.s[L.lo].kt, A.s[L.lo].vt), "dr_count")
          /\ UNCHANGED hist
\* a panic inside count() unwinds through the Drain, whose Drop destroys the rest
UnwindDrain ==
  /\ pc = "unwind" /\ L.phase = "count"
  /\ UNCHANGED <<budget, T>>
  /\ LET rest == [j \in 1..(L.hi - L.lo + 1) |-> L.lo + j - 1]
         RECURSIVE Cbs(_)
         Cbs(j) == IF j > Len(rest) THEN <<>> ELSE PairDrops(A.s[rest[j]].kt, A.s[rest[j]].vt) \o Cbs(j + 1) IN
     /\ hist' = hist \o Cbs(1)
     /\ viol' = Note(viol, \A j \in 1..Len(rest) : A.s[rest[j]].st = "l", "Drain::drop destroyed a slot that holds no live element")
     /\ A' = [A EXCEPT !.s = [x \in 1..Cap |-> IF x >= L.lo /\ x <= L.hi THEN [A.s[x] EXCEPT !.st = "d"] ELSE A.s[x]]]
  /\ L' = [L EXCEPT !.phase = "leaky"] /\ pc' = "done"

\* ---- entry.rs ------------------------------------------------------------
\* entry(k) scans; Occupied keeps the slot index and drops k at once, Vacant keeps k.
\* The harness runs one method chain per call (exec.rs exec_entry).
VArg == IF L.op.m \in EntryTakesV THEN <<VObj(L.op.v.vt)>> ELSE <<>>
EntryAfter ==
  /\ pc = "en_after"
  /\ UNCHANGED <<A, T, budget, viol, hist>>
  /\ IF L.found # 0
     THEN pc' = "dropping" /\ L' = GoDrop([L EXCEPT !.own = VArg, !.idx = L.found], <<DropK(L.op.k.kt)>>, "en_occ")
     ELSE pc' = "en_vac" /\ L' = L
EntryOcc ==
  /\ pc = "en_occ"
  /\ UNCHANGED <<T, budget>>
  /\ LET m == L.op.m
         i == L.idx
         ok == i >= 1 /\ i <= A.len /\ A.s[i].st = "l" IN
     /\ viol' = Note(viol, ok, "an occupied entry refers to a slot that holds no live element")
     /\ CASE m \in {"or_insert", "or_insert_with", "or_insert_with_key", "vac_insert"} ->      \* the unused value / closure is dropped
               pc' = "dropping" /\ L' = GoDrop([L EXCEPT !.own = <<>>], LocalDrops(VArg), "done") /\ UNCHANGED <<A, hist>>
          [] m = "and_modify" ->                                                               \* closure runs, then or_insert drops v
               /\ hist' = Append(hist, Cb("f", 0, 0)) /\ UNCHANGED A
               /\ \/ Inject
                  \/ UNCHANGED budget /\ pc' = "dropping" /\ L' = GoDrop([L EXCEPT !.own = <<>>], LocalDrops(VArg), "done")
          [] m = "occ_insert" ->
               A' = [A EXCEPT !.s[i].vt = L.op.v.vt] /\ L' = [L EXCEPT !.own = <<>>] /\ pc' = "done" /\ UNCHANGED hist
          [] m = "occ_remove" ->
               /\ A' = RIR(A, i) /\ UNCHANGED hist
               /\ pc' = "dropping" /\ L' = GoDrop([L EXCEPT !.own = <<>>], <<DropK(A.s[i].kt)>>, "done")   \* (value in the return place)
          [] m = "occ_remove_entry" -> A' = RIR(A, i) /\ L' = L /\ pc' = "done" /\ UNCHANGED hist
          [] OTHER -> pc' = "done" /\ L' = L /\ UNCHANGED <<A, hist>>
EntryVac ==
  /\ pc = "en_vac"
  /\ UNCHANGED <<A, T, viol>>
  /\ LET m == L.op.m
         k == L.op.k
         ins(vt) == /\ pc' = "scan" /\ L' = StartII(L, "A", k, vt, FALSE, FALSE, "en_ii_tail") IN
     CASE m \in {"or_insert", "vac_insert", "and_modify"} -> ins(L.op.v.vt) /\ UNCHANGED <<budget, hist>>
       [] m \in {"or_insert_with", "or_insert_with_key"} ->
            /\ hist' = Append(hist, Cb("f", 0, 0))
            /\ \/ /\ MayPanic /\ budget' = budget - 1 /\ pc' = "unwind"      \* the running closure (holding v) dies before the entry
                  /\ L' = [Panic(L, "injected") EXCEPT !.own = VArg \o <<KObj(k.kt)>>, !.n0 = Len(hist) + 1]
               \/ (UNCHANGED budget /\ ins(L.op.v.vt))
       [] m = "or_default" ->
            /\ hist' = Append(hist, Cb("u", 0, 0))
            /\ (Inject \/ (UNCHANGED budget /\ ins(31)))
       [] m = "vac_into_key" -> pc' = "done" /\ L' = [L EXCEPT !.own = <<>>] /\ UNCHANGED <<budget, hist>>
       [] OTHER ->      \* key, vac_key, and the Occupied-only methods: the value (if any), then the entry with its key, are dropped
            pc' = "dropping" /\ L' = GoDrop([L EXCEPT !.own = <<>>], LocalDrops(VArg \o <<KObj(k.kt)>>), "done") /\ UNCHANGED <<budget, hist>>
\* VacantEntry::insert: `let (index, _) = insert_ii(..)`; a displaced pair (only possible when
\* comparisons lie) is dropped on the spot; then value_mut(index)
EntryIITail ==
  /\ pc = "en_ii_tail"
  /\ UNCHANGED <<A, T, budget, hist>>
  /\ viol' = Note(viol, L.idx >= 1 /\ L.idx <= A.len /\ A.s[L.idx].st = "l", "VacantEntry::insert returned a reference to a slot that holds no live element")
  /\ IF L.ex = <<>> THEN pc' = "done" /\ L' = L
     ELSE pc' = "dropping" /\ L' = GoDrop(L, <<DropK(L.ex[1]), DropV(L.ex[2])>>, "done")

\* ---- map.rs insert_i (insert_unchecked), inside its contract -----------------
\* explicit loop; a found pair is READ OUT of its slot and written back with the new value
InsertUnchecked ==
  /\ pc = "iu"
  /\ UNCHANGED T
  /\ LET i == L.i
         k == L.op.k IN
     IF i > A.len THEN        \* not found: len += 1, then the slot is written (no callback in between)
       /\ viol' = Note(viol, A.len < Cap, "insert_unchecked wrote beyond the capacity")
       /\ A' = IF A.len < Cap THEN [A EXCEPT !.len = A.len + 1, !.s[A.len + 1] = LiveSlot(k.c, k.kt, L.op.v.vt)] ELSE A
       /\ pc' = "done" /\ L' = [L EXCEPT !.own = <<>>] /\ UNCHANGED <<budget, hist>>
     ELSE
       /\ hist' = Append(hist, Cb("e", A.s[i].kt, k.kt))
       /\ viol' = Note(viol, A.s[i].st = "l", "a key comparison read a slot that holds no live element")
       /\ \/ Inject /\ UNCHANGED A
          \/ /\ UNCHANGED budget
             /\ IF A.s[i].c = k.c
                THEN \* item_read(i) moves the pair out; item_write(i, (old_k, v)); (k, old_v) goes back to the caller
                     /\ A' = [A EXCEPT !.s[i].vt = L.op.v.vt]
                     /\ pc' = "dropping" /\ L' = GoDrop([L EXCEPT !.own = <<>>], <<DropK(k.kt)>>, "done")
                ELSE pc' = "iu" /\ L' = [L EXCEPT !.i = i + 1] /\ UNCHANGED A

\* ---- map.rs get_disjoint_mut / get_disjoint_unchecked_mut -------------------
\* precheck: every pair of requested keys compared; an equal pair -> assert! panics
DisjointPre ==
  /\ pc = "dj_pre"
  /\ UNCHANGED <<A, T, viol>>
  /\ LET ks == L.op.ks
         J == Len(ks) IN
     IF L.i >= J THEN pc' = "dj_main" /\ L' = [L EXCEPT !.i = 1, !.j = 1] /\ UNCHANGED <<budget, hist>>
     ELSE /\ hist' = Append(hist, Cb("q", 0, 0))
          /\ \/ Inject
             \/ /\ UNCHANGED budget
                /\ \E b \in EqOutcomes(ks[L.i] = ks[L.j]) :
                     IF b THEN pc' = "done" /\ L' = [Panic(L, "panic") EXCEPT !.script = Append(@, b)]     \* "Overlapping keys"
                     ELSE /\ pc' = "dj_pre"
                          /\ L' = IF L.j < J THEN [L EXCEPT !.j = @ + 1, !.script = Append(@, b)]
                                  ELSE [L EXCEPT !.i = @ + 1, !.j = L.i + 2, !.script = Append(@, b)]
\* J = 1: get_mut.  J >= 2: one pass over the live slots; each slot is matched against the
\* requests front to back (position()), a hit pushes (slot, request) on a stack of J entries
\* (bounds-checked); afterwards the slice is split from the back and ret[request] = &mut slot.value
DisjointMain ==
  /\ pc = "dj_main"
  /\ UNCHANGED <<A, T>>
  /\ LET ks == L.op.ks
         J == Len(ks) IN
     IF J = 1 THEN /\ pc' = "scan" /\ L' = StartScan(L, "A", "q", TRUE, 0, ks[1], "dj_one") /\ UNCHANGED <<budget, viol, hist>>
     ELSE IF L.i > A.len THEN pc' = "dj_fin" /\ L' = L /\ UNCHANGED <<budget, viol, hist>>
     ELSE IF L.j > J THEN pc' = "dj_main" /\ L' = [L EXCEPT !.i = @ + 1, !.j = 1] /\ UNCHANGED <<budget, viol, hist>>
     ELSE /\ hist' = Append(hist, Cb("q", 0, A.s[L.i].kt))
          /\ viol' = Note(viol, A.s[L.i].st = "l", "a key comparison read a slot that holds no live element")
          /\ \/ Inject
             \/ /\ UNCHANGED budget
                /\ \E b \in EqOutcomes(ks[L.j] = A.s[L.i].c) :
                     IF ~b THEN pc' = "dj_main" /\ L' = [L EXCEPT !.j = @ + 1, !.script = Append(@, b)]
                     ELSE IF Len(L.stack) >= J        \* stack[stack_top]: the bounds check panics
                     THEN pc' = "done" /\ L' = [Panic(L, "panic") EXCEPT !.script = Append(@, b)]
                     ELSE pc' = "dj_main" /\ L' = [L EXCEPT !.stack = Append(@, <<L.i, L.j>>), !.i = @ + 1, !.j = 1, !.script = Append(@, b)]
DisjointOne ==
  /\ pc = "dj_one" /\ pc' = "done" /\ UNCHANGED <<A, T, budget, hist>>
  /\ L' = [L EXCEPT !.refs = IF L.found = 0 THEN <<>> ELSE <<L.found>>]
  /\ viol' = Note(viol, L.found = 0 \/ (L.found <= A.len /\ A.s[L.found].st = "l"), "get_mut returned a slot that holds no live element")
\* the references handed out together: for every request the LAST slot assigned to it when the
\* stack is walked back to front, i.e. the lowest matching slot
DisjointFin ==
  /\ pc = "dj_fin" /\ pc' = "done" /\ UNCHANGED <<A, T, budget, hist>>
  /\ LET st == L.stack
         J == Len(L.op.ks)
         slotOf(j) == IF \E n \in 1..Len(st) : st[n][2] = j
                      THEN st[CHOOSE n \in 1..Len(st) : st[n][2] = j /\ \A m \in 1..(n - 1) : st[m][2] # j][1] ELSE 0
         refs == [j \in 1..J |-> slotOf(j)] IN
     /\ L' = [L EXCEPT !.refs = refs]
     /\ viol' = Note(Note(Note(viol,
                  \A n, m \in 1..Len(st) : n < m => st[n][1] < st[m][1], "split_at_mut would be called with indices that are not strictly decreasing"),
                  \A a, b \in 1..J : (a # b /\ refs[a] # 0) => refs[a] # refs[b], "two mutable references to the same slot were handed out together"),
                  \A a \in 1..J : refs[a] = 0 \/ (refs[a] <= A.len /\ A.s[refs[a]].st = "l"), "a mutable reference to a slot that holds no live element was handed out")

\* ---- iterators.rs IntoIter / keys.rs IntoKeys / values.rs IntoValues / set SetIntoIter ----
\* The container moves into the iterator (held in T; the harness leaves a new empty one in its
\* place).  The harness runs an episode of separately caught calls: n x next, Debug, then
\* drop / count() / forget (exec.rs exec_cursor, end_cursor).
CKind == IF L.op.name = "s_into_iter" THEN "into_keys" ELSE L.op.kind
CursorStart ==
  /\ pc = "ci0" /\ pc' = "ci_next"
  /\ T' = A /\ A' = Fresh
  /\ L' = [L EXCEPT !.left = L.op.n, !.soft = "ci_dbg", !.phase = IF L.op.end = "forget" THEN "leaky" ELSE ""]
  /\ UNCHANGED <<budget, viol, hist>>
\* IntoIter::next: len -= 1, read the last live slot; the projections drop the other half
CursorNext ==
  /\ pc = "ci_next"
  /\ UNCHANGED <<A, budget, hist>>
  /\ IF L.left > 0 /\ T.len > 0 THEN
       LET n == T.len
           sl == T.s[n]
           half == IF ~IsMap THEN <<>> ELSE IF CKind = "into_keys" THEN <<DropV(sl.vt)>> ELSE IF CKind = "into_values" THEN <<DropK(sl.kt)>> ELSE <<>> IN
       /\ viol' = Note(viol, sl.st = "l", "IntoIter::next moved out a slot that holds no live element")
       /\ T' = [T EXCEPT !.len = n - 1, !.s[n].st = "m"]
       /\ pc' = "dropping" /\ L' = GoDrop([L EXCEPT !.left = @ - 1], half, "ci_next")
     ELSE pc' = "ci_dbg" /\ L' = L /\ UNCHANGED <<T, viol>>
\* Debug of the consuming iterators renders the remaining map front to back
CursorDebug ==
  /\ pc = "ci_dbg"
  /\ UNCHANGED <<A, T>>
  /\ LET RECURSIVE F(_)
         F(i) == IF i > T.len THEN <<>>
                 ELSE (IF ~IsMap THEN <<>>
                       ELSE IF CKind = "into_iter" THEN <<Cb("t", T.s[i].kt, 0), Cb("t", VT(T.s[i].vt), 0)>>
                       ELSE IF CKind = "into_keys" THEN <<Cb("t", T.s[i].kt, 0)>> ELSE <<Cb("t", VT(T.s[i].vt), 0)>>) \o F(i + 1)
         cbs == F(1)
         byCount == L.op.n % 2 = 1 /\ CKind # "into_iter"     \* IntoIter overrides count(): len, then drop
         nxt == IF L.op.end = "forget" THEN "ci_gone" ELSE IF byCount THEN "ci_count" ELSE "ci_drop" IN
     /\ viol' = Note(viol, ContAllLive(T, 1), "Debug of a consuming iterator rendered a slot that holds no live element")
     /\ pc' = nxt
     /\ \/ /\ hist' = hist \o cbs /\ L' = [L EXCEPT !.soft = "ci_gone", !.i = 1] /\ UNCHANGED budget
        \/ /\ MayPanic /\ budget' = budget - 1
           /\ \E p \in 1..Len(cbs) : hist' = hist \o SubSeq(cbs, 1, p)
                                     /\ L' = [Panic(L, "injected") EXCEPT !.n0 = Len(hist) + p, !.soft = "ci_gone", !.i = 1]
\* dropping the iterator = Drop for Map on what is left (front to back)
CursorDrop ==
  /\ pc = "ci_drop"
  /\ UNCHANGED <<A, budget>>
  /\ IF L.i > T.len THEN pc' = "ci_gone" /\ L' = L /\ UNCHANGED <<T, viol, hist>>
     ELSE /\ viol' = Note(viol, T.s[L.i].st = "l", "Drop destroyed a slot that holds no live element")
          /\ T' = [T EXCEPT !.s[L.i].st = "d"]
          /\ pc' = "dropping" /\ L' = GoDrop([L EXCEPT !.i = @ + 1], PairDrops(T.s[L.i].kt, T.s[L.i].vt), "ci_drop")
          /\ UNCHANGED hist
\* count() of the projections = fold over next: every item is produced (other half dropped) and
\* then destroyed by the fold; a panic unwinds through the iterator, whose map drops the rest
CursorCount ==
  /\ pc = "ci_count"
  /\ UNCHANGED <<A, budget, hist>>
  /\ IF T.len = 0 THEN pc' = "ci_gone" /\ L' = L /\ UNCHANGED <<T, viol>>
     ELSE LET n == T.len
              sl == T.s[n]
              cbs == IF ~IsMap THEN <<DropK(sl.kt)>> ELSE IF CKind = "into_keys" THEN <<DropV(sl.vt), DropK(sl.kt)>> ELSE <<DropK(sl.kt), DropV(sl.vt)>> IN
          /\ viol' = Note(viol, sl.st = "l", "IntoIter::next moved out a slot that holds no live element")
          /\ T' = [T EXCEPT !.len = n - 1, !.s[n].st = "m"]
          /\ pc' = "dropping" /\ L' = GoDropSeq([L EXCEPT !.soft = "ci_unw", !.i = 1], cbs, "ci_count")
CursorUnwind ==       \* unwinding out of count(): Drop for Map on the rest, no further panic
  /\ pc = "ci_unw" /\ pc' = "ci_gone" /\ UNCHANGED <<A, budget, L>>
  /\ hist' = hist \o ContDrops(T, 1)
  /\ viol' = Note(viol, ContAllLive(T, 1), "Drop destroyed a slot that holds no live element")
  /\ T' = [T EXCEPT !.s = [x \in 1..Cap |-> IF x <= T.len THEN [T.s[x] EXCEPT !.st = "d"] ELSE T.s[x]]]
CursorGone ==
  /\ pc = "ci_gone" /\ pc' = "done" /\ T' = NoT /\ UNCHANGED <<A, budget, viol, hist, L>>

\* ---- from.rs / set/from.rs / set/extend.rs: a loop of insert over the source ----------
\* from_*: into a new local container (T) that replaces A on success and is dropped on unwind;
\* Set::extend: into A itself.  The harness' recording source makes one 'n' callback per pull.
BulkTarget == IF L.op.name = "s_extend" THEN "A" ELSE "T"
BulkPulls == L.op.name \in {"from_iter", "s_from_iter", "s_extend"}
SrcObjs(items, from) ==
  LET RECURSIVE F(_)
      F(j) == IF j > Len(items) THEN <<>> ELSE <<KObj(items[j].k.kt)>> \o VLocals(items[j].v.vt) \o F(j + 1)
  IN F(from)
BulkStart ==
  /\ pc = "bk0" /\ pc' = "bk_pull" /\ UNCHANGED <<A, budget, viol, hist>>
  /\ T' = IF BulkTarget = "T" THEN Fresh ELSE T
  /\ L' = [L EXCEPT !.i = 1, !.own = SrcObjs(L.op.items, 1)]
BulkPull ==
  /\ pc = "bk_pull"
  /\ UNCHANGED viol
  /\ LET items == L.op.items
         i == L.i
         go == IF i > Len(items)
               THEN /\ pc' = "done" /\ L' = [L EXCEPT !.own = <<>>]
                    /\ IF BulkTarget = "T" THEN A' = T /\ T' = NoT ELSE UNCHANGED <<A, T>>
               ELSE /\ UNCHANGED <<A, T>> /\ pc' = "scan"
                    /\ L' = LET l2 == StartII(L, BulkTarget, items[i].k, items[i].v.vt, FALSE, FALSE, "bk_tail") IN
                            [l2 EXCEPT !.own = @ \o SrcObjs(items, i + 1)] IN
     IF BulkPulls
     THEN /\ hist' = Append(hist, Cb("n", 0, 0))
          /\ \/ Inject /\ UNCHANGED <<A, T>>
             \/ UNCHANGED budget /\ go
     ELSE UNCHANGED <<budget, hist>> /\ go
\* insert(): the key part of a displaced pair is destroyed; then the loop body drops the old value
BulkTail ==
  /\ pc = "bk_tail"
  /\ UNCHANGED <<A, T, budget, viol, hist>>
  /\ LET rest == SrcObjs(L.op.items, L.i + 1)
         l2 == [L EXCEPT !.i = @ + 1, !.own = rest] IN
     IF L.ex = <<>> THEN pc' = "bk_pull" /\ L' = l2
     ELSE pc' = "dropping" /\ L' = GoDropSeq(l2, <<DropK(L.ex[1])>> \o (IF IsMap THEN <<DropV(L.ex[2])>> ELSE <<>>), "bk_pull")

\* ---- clone.rs: element-wise clone into a new container whose len grows with the writes ----
\* harness episode (exec.rs "clone"): clone | copy == orig | orig == copy | drop of the non-survivor
CloneStart ==
  /\ pc = "cl0" /\ pc' = "cl_k" /\ T' = Fresh /\ L' = [L EXCEPT !.i = 1] /\ UNCHANGED <<A, budget, viol, hist>>
CloneKey ==
  /\ pc = "cl_k"
  /\ UNCHANGED <<A, T>>
  /\ IF L.i > A.len
     THEN /\ UNCHANGED <<budget, viol, hist>>
          /\ IF L.op.name \in CloneFromNames THEN pc' = "cf_old" /\ L' = [L EXCEPT !.i = 1, !.soft = "cf_swap_p"]
             ELSE pc' = "cl_eq" /\ L' = [L EXCEPT !.i = 1, !.j = 1, !.soft = "cl_eq"]
     ELSE /\ hist' = Append(hist, Cb("c", A.s[L.i].kt, 0))
          /\ viol' = Note(viol, A.s[L.i].st = "l", "clone read a slot that holds no live element")
          /\ (Inject \/ (UNCHANGED budget /\ pc' = "cl_v" /\ L' = [L EXCEPT !.own = <<KObj(20 + A.s[L.i].kt)>>]))
CloneVal ==
  /\ pc = "cl_v"
  /\ UNCHANGED <<A, viol>>
  /\ LET sl == A.s[L.i]
         wr == /\ T' = [T EXCEPT !.s[L.i] = LiveSlot(sl.c, 20 + sl.kt, IF IsMap THEN 20 + sl.vt ELSE 0), !.len = T.len + 1]
               /\ pc' = "cl_k" /\ L' = [L EXCEPT !.i = @ + 1, !.own = <<>>] IN
     IF IsMap THEN /\ hist' = Append(hist, Cb("c", VT(sl.vt), 0))
                   /\ ((Inject /\ UNCHANGED T) \/ (UNCHANGED budget /\ wr))
     ELSE UNCHANGED <<budget, hist>> /\ wr
\* eq.rs: equal len, then for every pair of the left operand: right.get(k) == Some(v)
\* L.j = 1: copy == orig (left T, right A); L.j = 2: orig == copy
\* (clone: the copy is T; clone_from: the destination is L.b)
EqOther == IF L.op.name \in CloneFromNames THEN "B" ELSE "T"
EqLeft == IF L.j = 1 THEN On(EqOther) ELSE A
EqRightName == IF L.j = 1 THEN "A" ELSE EqOther
CloneEq ==
  /\ pc = "cl_eq"
  /\ UNCHANGED <<A, T, budget, viol, hist>>
  /\ IF L.j > 2 THEN (IF L.op.name \in CloneFromNames THEN pc' = "cf_drop" /\ L' = [L EXCEPT !.soft = "cf_gone", !.i = 1]
                      ELSE pc' = "cl_swap" /\ L' = [L EXCEPT !.soft = "cl_gone", !.i = 1])
     ELSE IF L.i > EqLeft.len \/ EqLeft.len # On(EqRightName).len THEN pc' = "cl_eq" /\ L' = [L EXCEPT !.j = @ + 1, !.i = 1]
     ELSE /\ pc' = "scan"
          /\ L' = StartScan([L EXCEPT !.soft = "cl_eqp"], EqRightName, "e", TRUE, EqLeft.s[L.i].kt, EqLeft.s[L.i].c, "cl_eqv")
CloneEqPanicked ==        \* a panic inside one comparison call ends that call only
  /\ pc = "cl_eqp" /\ pc' = "cl_eq" /\ L' = [L EXCEPT !.j = 3, !.i = 1] /\ UNCHANGED <<A, T, budget, viol, hist>>   \* (`a == b || b == a` short-circuits)
CloneEqVal ==
  /\ pc = "cl_eqv"
  /\ UNCHANGED <<A, T, viol>>
  /\ IF L.found = 0 THEN pc' = "cl_eq" /\ L' = [L EXCEPT !.j = 3, !.i = 1] /\ UNCHANGED <<budget, hist>>     \* all() stops: false
     ELSE IF ~IsMap THEN pc' = "cl_eq" /\ L' = [L EXCEPT !.i = @ + 1] /\ UNCHANGED <<budget, hist>>
     ELSE /\ hist' = Append(hist, Cb("v", VT(On(EqRightName).s[L.found].vt), VT(EqLeft.s[L.i].vt)))
          /\ (Inject \/ (UNCHANGED budget /\ pc' = "cl_eq" /\ L' = [L EXCEPT !.i = @ + 1]))
CloneSwap ==
  /\ pc = "cl_swap" /\ pc' = "cl_drop" /\ L' = L /\ UNCHANGED <<budget, viol, hist>>
  /\ IF L.op.survivor = "copy" THEN A' = T /\ T' = A ELSE UNCHANGED <<A, T>>
CloneDrop ==
  /\ pc = "cl_drop"
  /\ UNCHANGED <<A, budget>>
  /\ IF L.i > T.len THEN pc' = "cl_gone" /\ L' = L /\ UNCHANGED <<T, viol, hist>>
     ELSE /\ viol' = Note(viol, T.s[L.i].st = "l", "Drop destroyed a slot that holds no live element")
          /\ T' = [T EXCEPT !.s[L.i].st = "d"]
          /\ pc' = "dropping" /\ L' = GoDrop([L EXCEPT !.i = @ + 1], PairDrops(T.s[L.i].kt, T.s[L.i].vt), "cl_drop")
          /\ UNCHANGED hist
CloneGone ==
  /\ pc = "cl_gone" /\ pc' = "done" /\ T' = NoT /\ UNCHANGED <<A, budget, viol, hist, L>>

\* ---- binary operations of Set ----------------------------------------------
\* "for every element of x, look it up in y; stop as soon as a lookup hits (stopHit) / misses":
\* Set::eq (eq.rs: len, then all(|k| other.get(k)...)), is_subset, is_superset, is_disjoint
FaStep ==
  /\ pc = "fa" /\ UNCHANGED <<A, T, budget, viol, hist>>
  /\ LET X == On(L.fa.x) IN
     IF L.fa.i > X.len THEN pc' = L.fa.exit /\ L' = [L EXCEPT !.res = BoolRes(L.op, TRUE)]
     ELSE pc' = "scan" /\ L' = StartScan(L, L.fa.y, "e", TRUE, X.s[L.fa.i].kt, X.s[L.fa.i].c, "fa_after")
FaAfter ==
  /\ pc = "fa_after" /\ UNCHANGED <<A, T, viol>>
  /\ IF (L.found # 0) = L.fa.stopHit THEN pc' = L.fa.exit /\ L' = [L EXCEPT !.res = BoolRes(L.op, FALSE)] /\ UNCHANGED <<budget, hist>>
     ELSE IF ~IsMap THEN pc' = "fa" /\ L' = [L EXCEPT !.fa.i = @ + 1] /\ UNCHANGED <<budget, hist>>
     ELSE \* Map ==: other.get(k) == Some(v) compares the two values (user code)
          /\ hist' = Append(hist, Cb("v", VT(L.b.s[L.found].vt), VT(A.s[L.fa.i].vt)))
          /\ \/ Inject
             \/ /\ UNCHANGED budget
                /\ IF L.op.bv[L.found] = 0 THEN pc' = "fa" /\ L' = [L EXCEPT !.fa.i = @ + 1]
                   ELSE pc' = L.fa.exit /\ L' = [L EXCEPT !.res = BoolRes(L.op, FALSE)]
BinaryDone ==        \* the second operand belongs to the caller; a temporary result is gone by now
  /\ pc = "b_done" /\ pc' = "done" /\ T' = NoT /\ UNCHANGED <<A, budget, viol, hist, L>>

\* the lazy adaptors as chains of filtered slot iterators:
\*   difference = x.iter().filter(absent from y); intersection = filter(present in y);
\*   union = y.iter() ++ x.difference(y); symmetric_difference = x.difference(y) ++ y.difference(x)
Segs(kind) ==
  CASE kind = "difference" -> <<[x |-> "A", y |-> "B", want |-> "absent"]>>
    [] kind = "intersection" -> <<[x |-> "A", y |-> "B", want |-> "present"]>>
    [] kind = "union" -> <<[x |-> "B", y |-> "B", want |-> "all"], [x |-> "A", y |-> "B", want |-> "absent"]>>
    [] kind = "symmetric_difference" -> <<[x |-> "A", y |-> "B", want |-> "absent"], [x |-> "B", y |-> "A", want |-> "absent"]>>
\* the harness takes n items with next() (each call caught on its own), then folds the rest with
\* a closure of its own (a callback, 'g')
Yield(l) ==          \* an item comes out of the adaptor
  IF l.phase = "next" THEN (IF l.left <= 1 THEN [l EXCEPT !.left = 0, !.phase = "fold", !.i = @ + 1, !.res[2] = @ + 1] ELSE [l EXCEPT !.left = @ - 1, !.i = @ + 1, !.res[2] = @ + 1])
  ELSE [l EXCEPT !.i = @ + 1, !.res[2] = @ + 1]
AlgStep ==
  /\ pc = "ba" /\ UNCHANGED <<A, T, viol>>
  /\ LET sg == Segs(L.op.kind) IN
     IF L.seg > Len(sg) THEN pc' = "b_done" /\ L' = L /\ UNCHANGED <<budget, hist>>
     ELSE LET g == sg[L.seg]
              X == On(g.x) IN
          IF L.i > X.len THEN pc' = "ba" /\ L' = [L EXCEPT !.seg = @ + 1, !.i = 1] /\ UNCHANGED <<budget, hist>>
          ELSE IF g.want = "all" THEN
               IF L.phase = "next" THEN pc' = "ba" /\ L' = Yield(L) /\ UNCHANGED <<budget, hist>>
               ELSE /\ hist' = Append(hist, Cb("g", 0, 0))
                    /\ (Inject \/ (UNCHANGED budget /\ pc' = "ba" /\ L' = Yield(L)))
          ELSE pc' = "scan" /\ L' = StartScan(L, g.y, "e", TRUE, X.s[L.i].kt, X.s[L.i].c, "ba_after") /\ UNCHANGED <<budget, hist>>
AlgAfter ==
  /\ pc = "ba_after" /\ UNCHANGED <<A, T, viol>>
  /\ LET g == Segs(L.op.kind)[L.seg]
         pass == (g.want = "present") = (L.found # 0) IN
     IF ~pass THEN pc' = "ba" /\ L' = [L EXCEPT !.i = @ + 1] /\ UNCHANGED <<budget, hist>>
     ELSE IF L.phase = "next" THEN pc' = "ba" /\ L' = Yield(L) /\ UNCHANGED <<budget, hist>>
     ELSE /\ hist' = Append(hist, Cb("g", 0, 0))
          /\ (Inject \/ (UNCHANGED budget /\ pc' = "ba" /\ L' = Yield(L)))
\* a panic inside one next() call ends that call only (the slice iterator has already stepped past
\* the element it was looking at); the harness then goes on to fold.  A panic inside fold ends the episode.
AlgSoft ==
  /\ pc = "ba_soft" /\ UNCHANGED <<A, T, budget, viol, hist>>
  /\ IF L.phase = "next" THEN pc' = "ba" /\ L' = [L EXCEPT !.phase = "fold", !.left = 0, !.i = @ + 1]
     ELSE pc' = "b_done" /\ L' = L

\* set/sub.rs: self.difference(rhs).cloned().collect() - a new set of the left capacity (T), filled by
\* a loop of insert; unwinding drops it
SubStep ==
  /\ pc = "bs" /\ UNCHANGED <<A, T, budget, viol, hist>>
  /\ IF L.i > A.len THEN pc' = "bs_ret" /\ L' = L
     ELSE pc' = "scan" /\ L' = StartScan(L, "B", "e", TRUE, A.s[L.i].kt, A.s[L.i].c, "bs_after")
SubAfter ==
  /\ pc = "bs_after" /\ UNCHANGED <<A, T, viol>>
  /\ IF L.found # 0 THEN pc' = "bs" /\ L' = [L EXCEPT !.i = @ + 1] /\ UNCHANGED <<budget, hist>>
     ELSE /\ hist' = Append(hist, Cb("c", A.s[L.i].kt, 0))                       \* cloned()
          /\ \/ Inject
             \/ /\ UNCHANGED budget /\ pc' = "scan"
                /\ L' = StartII(L, "T", [kt |-> 20 + A.s[L.i].kt, c |-> A.s[L.i].c], 0, FALSE, FALSE, "bs_tail")
SubTail ==       \* Set::insert: a displaced key part (only when comparisons lie) is dropped
  /\ pc = "bs_tail" /\ UNCHANGED <<A, T, budget, viol, hist>>
  /\ IF L.ex = <<>> THEN pc' = "bs" /\ L' = [L EXCEPT !.i = @ + 1]
     ELSE pc' = "dropping" /\ L' = GoDrop([L EXCEPT !.i = @ + 1], <<DropK(L.ex[1])>>, "bs")
SubReturned ==   \* the result is handed to the caller, which looks at it and drops it (a call of its own)
  /\ pc = "bs_ret" /\ pc' = "bs_drop" /\ L' = [L EXCEPT !.soft = "b_done", !.i = 1, !.res = <<"n", T.len>>] /\ UNCHANGED <<A, T, budget, viol, hist>>
SubDrop ==
  /\ pc = "bs_drop" /\ UNCHANGED <<A, budget>>
  /\ IF L.i > T.len THEN pc' = "b_done" /\ L' = L /\ UNCHANGED <<T, viol, hist>>
     ELSE /\ viol' = Note(viol, T.s[L.i].st = "l", "Drop destroyed a slot that holds no live element")
          /\ T' = [T EXCEPT !.s[L.i].st = "d"]
          /\ pc' = "dropping" /\ L' = GoDrop([L EXCEPT !.i = @ + 1], PairDrops(T.s[L.i].kt, T.s[L.i].vt), "bs_drop")
          /\ UNCHANGED hist

\* Clone::clone_from (the default): *self = source.clone() - the clone is complete before the old
\* value of the destination is dropped; the assignment writes the new value even when that drop panics
CloneFromOld ==
  /\ pc = "cf_old" /\ UNCHANGED <<A, T, budget, viol, hist>>
  /\ IF L.i > L.b.len THEN pc' = "cf_swap" /\ L' = L
     ELSE pc' = "dropping"
          /\ L' = GoDrop([L EXCEPT !.i = @ + 1, !.b.s[L.i].st = "d"], PairDrops(L.b.s[L.i].kt, L.b.s[L.i].vt), "cf_old")
CloneFromSwap ==
  /\ pc \in {"cf_swap", "cf_swap_p"} /\ UNCHANGED <<A, budget, viol, hist>>
  /\ T' = NoT
  /\ IF pc = "cf_swap" THEN pc' = "cl_eq" /\ L' = [L EXCEPT !.b = T, !.i = 1, !.j = 1, !.soft = "cl_eq"]
     ELSE pc' = "cf_drop" /\ L' = [L EXCEPT !.b = T, !.i = 1, !.soft = "cf_gone"]
CloneFromDrop ==
  /\ pc = "cf_drop" /\ UNCHANGED <<A, T, budget, hist>>
  /\ IF L.i > L.b.len THEN pc' = "cf_gone" /\ L' = L /\ UNCHANGED viol
     ELSE /\ viol' = Note(viol, L.b.s[L.i].st = "l", "Drop destroyed a slot that holds no live element")
          /\ pc' = "dropping"
          /\ L' = GoDrop([L EXCEPT !.i = @ + 1, !.b.s[L.i].st = "d"], PairDrops(L.b.s[L.i].kt, L.b.s[L.i].vt), "cf_drop")
CloneFromGone ==
  /\ pc = "cf_gone" /\ pc' = "done" /\ T' = NoT /\ UNCHANGED <<A, budget, viol, hist, L>>

\* ==================================================================== spec ==
Init == A = Fresh /\ T = NoT /\ pc = "idle" /\ L = L0 /\ budget = 0 /\ viol = "none" /\ hist = <<>>

\* reachability of every well-formed layout, whatever family is enumerated
Reach ==
  /\ pc = "idle" /\ UNCHANGED <<T, pc, L, budget, viol, hist>>
  /\ \/ \E c \in Classes : A.len < Cap /\ (Adv \/ c \notin KeysIn(A))
           /\ A' = Canon([A EXCEPT !.s[A.len + 1] = LiveSlot(c, 0, 0), !.len = A.len + 1])
     \/ \E i \in 1..A.len : A' = Canon(RIR(A, i))

Done ==
  /\ pc = "done"
  /\ (Emit => PrintT(<<"TR", ToJson([Record EXCEPT !.at = IF L.out = "injected" THEN L.n0 ELSE 0] @@
                                     [post |-> Survivors(IF L.phase = "gone" THEN Fresh ELSE A), leaked |-> LeakedIn(A)])>>))
  /\ Finish

Next ==
  \/ Reach
  \/ \E op \in AllOps : Start(op)
  \/ ScanStep \/ IIAfter \/ DropStep \/ (Unwind /\ L.phase # "count") \/ UnwindDrain
  \/ LookupAfter \/ InsertTail \/ RetainStep \/ ClearStart \/ ClearStep \/ DropStepC
  \/ EntryAfter \/ EntryOcc \/ EntryVac \/ EntryIITail \/ InsertUnchecked
  \/ DisjointPre \/ DisjointMain \/ DisjointOne \/ DisjointFin
  \/ CursorStart \/ CursorNext \/ CursorDebug \/ CursorDrop \/ CursorCount \/ CursorUnwind \/ CursorGone
  \/ BulkStart \/ BulkPull \/ BulkTail
  \/ CloneStart \/ CloneKey \/ CloneVal \/ CloneEq \/ CloneEqPanicked \/ CloneEqVal \/ CloneSwap \/ CloneDrop \/ CloneGone
  \/ CloneFromOld \/ CloneFromSwap \/ CloneFromDrop \/ CloneFromGone
  \/ FaStep \/ FaAfter \/ BinaryDone \/ AlgStep \/ AlgAfter \/ AlgSoft \/ SubStep \/ SubAfter \/ SubTail \/ SubReturned \/ SubDrop
  \/ DrainStart \/ DrainNext \/ DrainDebug \/ DrainDrop \/ DrainCount
  \/ Done
Spec == Init /\ [][Next]_vars

\* ------------------------------------------------------------- invariants --
\* The two layers have ONE semantics: whenever a call of the micro model comes back without a
\* panic of user code (lawful comparisons), the container it leaves behind - which object in which
\* slot - is exactly what the macro layer (MapOps!Apply, the layer shown to refine Dict) computes
\* for that call; a container-raised panic is a panic of the macro layer too and leaves the
\* container as it was.
M == INSTANCE MapOps
MacroPre == [i \in 1..Len(L.pre) |-> [c |-> L.pre[i][1], r |-> 0, v |-> 0, kt |-> i, vt |-> IF IsMap THEN i ELSE 0]]
MacroPost(r) == [i \in 1..Len(r.post) |-> <<r.post[i].kt, r.post[i].c, r.post[i].vt>>]
MacroPanics(r) ==
  IF L.op.name \in {"from_iter", "from_array", "s_from_iter", "s_from_array", "s_extend"} THEN r.ret.r = "panic"
  ELSE IF L.op.name \in {"drain", "s_drain", "cursor", "s_into_iter", "clone", "clone_from", "s_clone_from"} THEN FALSE     \* (episode records; these never panic by themselves)
  ELSE r.ret[1] = "panic"
MicroRefinesMacro ==
  (pc = "done" /\ ~Adv /\ L.out \in {"ok", "panic"} /\ L.op.name \notin BinaryNames) =>
     LET r == M!Apply(MacroPre, Cap, L.op)
         mine == Survivors(IF L.phase = "gone" THEN Fresh ELSE A) IN
     IF L.out = "panic" THEN MacroPanics(r) /\ (L.op.name = "s_extend" \/ mine = MacroPost(r))
     ELSE ~MacroPanics(r) /\ mine = MacroPost(r)

Safe == viol = "none"
Bounded == A.len <= Cap /\ (HasT => T.len <= Cap)
IdleWellFormed == pc = "idle" => (WellFormed(A) /\ ~HasT /\ (~Adv => \A i, j \in 1..A.len : A.s[i].c = A.s[j].c => i = j))
=============================================================================
