----------------------------- MODULE MapProofId -----------------------------
(***************************************************************************)
(* TLAPS, unbounded capacity: STORED-KEY IDENTITY (C12).  Every stored key  *)
(* is an object with an identity `r` besides its equality class `k`.        *)
(* `insert` (upd = FALSE) overwrites the value of a present key and KEEPS   *)
(* the stored key object; `insert_key_value` / `Set::replace` (upd = TRUE)  *)
(* store the NEW key object; no other pair is disturbed by either           *)
(* (theorem InsertRef); removal takes out exactly the pair in that slot,    *)
(* key object included (SwapRemoveRef).  Same structure as MapProofKV.tla.  *)
(***************************************************************************)
EXTENDS Integers, Sequences, TLAPS

CONSTANTS Cap, Keys, Ids, Vals
ASSUME CapNat == Cap \in Nat

VARIABLE slots

Pair == [k : Keys, r : Ids, v : Vals]
TypeOK == slots \in Seq(Pair)
Unique == \A i, j \in 1..Len(slots) : slots[i].k = slots[j].k => i = j
Inv == TypeOK /\ Len(slots) <= Cap /\ Unique

Present(k) == \E i \in 1..Len(slots) : slots[i].k = k
Abs == {slots[i] : i \in 1..Len(slots)}

Init == slots = <<>>

\* map.rs insert_ii(k, v, update_key): value replaced in place when present - the stored key object
\* stays unless update_key; appended when there is room; else panic
Insert(k, r, v, upd) ==
  /\ k \in Keys /\ r \in Ids /\ v \in Vals /\ upd \in BOOLEAN
  /\ IF Present(k)
     THEN \E i \in 1..Len(slots) : /\ slots[i].k = k
                                   /\ slots' = [j \in 1..Len(slots) |-> IF j = i THEN [k |-> k, r |-> IF upd THEN r ELSE slots[i].r, v |-> v] ELSE slots[j]]
     ELSE IF Len(slots) < Cap THEN slots' = Append(slots, [k |-> k, r |-> r, v |-> v])
     ELSE UNCHANGED slots

\* map.rs remove_index_read: the last live slot moves into the hole, len -= 1
SwapRemove(i) ==
  /\ i \in 1..Len(slots)
  /\ slots' = [j \in 1..(Len(slots) - 1) |-> IF j = i THEN slots[Len(slots)] ELSE slots[j]]

PopBack == /\ Len(slots) > 0
           /\ slots' = [j \in 1..(Len(slots) - 1) |-> slots[j]]

Clear == slots' = <<>>

Next == (\E k \in Keys, r \in Ids, v \in Vals, upd \in BOOLEAN : Insert(k, r, v, upd)) \/ (\E i \in 1..Len(slots) : SwapRemove(i)) \/ PopBack \/ Clear

\* ------------------------------------------------------------ invariant --
THEOREM InitInv == Init => Inv
  BY CapNat DEF Init, Inv, TypeOK, Unique

THEOREM InsertInv == ASSUME Inv, NEW k \in Keys, NEW r \in Ids, NEW v \in Vals, NEW upd \in BOOLEAN, Insert(k, r, v, upd) PROVE Inv'
  <1>0. slots \in Seq(Pair) /\ Len(slots) \in Nat BY DEF Inv, TypeOK
  <1>1. CASE Present(k)
    <2>1. PICK i \in 1..Len(slots) : /\ slots[i].k = k
                                     /\ slots' = [j \in 1..Len(slots) |-> IF j = i THEN [k |-> k, r |-> IF upd THEN r ELSE slots[i].r, v |-> v] ELSE slots[j]]
      BY <1>1 DEF Insert
    <2>p. slots[i] \in Pair BY <1>0
    <2>q. [k |-> k, r |-> IF upd THEN r ELSE slots[i].r, v |-> v] \in Pair BY <2>p DEF Pair
    <2>2. Len(slots') = Len(slots) /\ slots' \in Seq(Pair) BY <2>1, <1>0, <2>q
    <2>3. \A j \in 1..Len(slots) : slots'[j] = IF j = i THEN [k |-> k, r |-> IF upd THEN r ELSE slots[i].r, v |-> v] ELSE slots[j] BY <2>1
    <2>4. \A j \in 1..Len(slots) : slots'[j].k = slots[j].k BY <2>3, <2>1
    <2>5. Unique' BY <2>2, <2>4 DEF Unique, Inv
    <2>. QED BY <2>2, <2>5 DEF Inv, TypeOK
  <1>2. CASE ~Present(k) /\ Len(slots) < Cap
    <2>p. [k |-> k, r |-> r, v |-> v] \in Pair BY DEF Pair
    <2>1. slots' = Append(slots, [k |-> k, r |-> r, v |-> v]) BY <1>2 DEF Insert
    <2>2. slots' \in Seq(Pair) BY <2>1, <1>0, <2>p
    <2>3. Len(slots') = Len(slots) + 1 BY <2>1, <1>0
    <2>4. Len(slots') <= Cap BY <2>3, <1>2, <1>0, CapNat
    <2>5. \A i \in 1..Len(slots) : slots'[i] = slots[i] BY <2>1, <1>0
    <2>6. slots'[Len(slots) + 1] = [k |-> k, r |-> r, v |-> v] BY <2>1, <1>0
    <2>7. \A i \in 1..Len(slots) : slots[i].k # k BY <1>2 DEF Present
    <2>8. Unique' BY <2>3, <2>5, <2>6, <2>7, <1>0 DEF Unique, Inv
    <2>. QED BY <2>2, <2>4, <2>8 DEF Inv, TypeOK
  <1>3. CASE ~Present(k) /\ ~(Len(slots) < Cap)
    BY <1>3 DEF Insert, Inv, TypeOK, Unique
  <1>. QED BY <1>1, <1>2, <1>3

THEOREM SwapRemoveInv == ASSUME Inv, NEW i \in 1..Len(slots), SwapRemove(i) PROVE Inv'
  <1> DEFINE n == Len(slots)
  <1>0. n \in Nat /\ n >= 1 /\ slots \in Seq(Pair) BY DEF Inv, TypeOK
  <1>1. slots' = [j \in 1..(n - 1) |-> IF j = i THEN slots[n] ELSE slots[j]] BY DEF SwapRemove
  <1>2. slots' \in Seq(Pair) /\ Len(slots') = n - 1 BY <1>0, <1>1
  <1>3. Len(slots') <= Cap BY <1>2, <1>0, CapNat DEF Inv
  <1>4. \A j \in 1..(n - 1) : slots'[j] = IF j = i THEN slots[n] ELSE slots[j] BY <1>1
  <1>5. Unique' BY <1>0, <1>2, <1>4 DEF Unique, Inv
  <1>. QED BY <1>2, <1>3, <1>5 DEF Inv, TypeOK

THEOREM PopBackInv == ASSUME Inv, PopBack PROVE Inv'
  <1> DEFINE n == Len(slots)
  <1>0. n \in Nat /\ n >= 1 /\ slots \in Seq(Pair) BY DEF Inv, TypeOK, PopBack
  <1>1. slots' = [j \in 1..(n - 1) |-> slots[j]] BY DEF PopBack
  <1>2. slots' \in Seq(Pair) /\ Len(slots') = n - 1 BY <1>0, <1>1
  <1>3. \A j \in 1..(n - 1) : slots'[j] = slots[j] BY <1>1
  <1>4. Unique' BY <1>0, <1>2, <1>3 DEF Unique, Inv
  <1>. QED BY <1>2, <1>4, <1>0, CapNat DEF Inv, TypeOK

THEOREM ClearInv == ASSUME Inv, Clear PROVE Inv'
  BY CapNat DEF Clear, Inv, TypeOK, Unique

THEOREM NextInv == Inv /\ [Next]_slots => Inv'
  <1> SUFFICES ASSUME Inv, [Next]_slots PROVE Inv' OBVIOUS
  <1>1. CASE \E k \in Keys, r \in Ids, v \in Vals, upd \in BOOLEAN : Insert(k, r, v, upd) BY <1>1, InsertInv
  <1>2. CASE \E i \in 1..Len(slots) : SwapRemove(i) BY <1>2, SwapRemoveInv
  <1>3. CASE PopBack BY <1>3, PopBackInv
  <1>4. CASE Clear BY <1>4, ClearInv
  <1>5. CASE UNCHANGED slots BY <1>5 DEF Inv, TypeOK, Unique
  <1>. QED BY <1>1, <1>2, <1>3, <1>4, <1>5 DEF Next

THEOREM Safety == Init /\ [][Next]_slots => []Inv
  BY InitInv, NextInv, PTL

\* ----------------------------------------------------------- refinement --
\* under the invariant the abstraction is a function of the key: an ideal MAP
THEOREM AbsFunctional == ASSUME Inv PROVE \A p, q \in Abs : p.k = q.k => p = q
  BY DEF Inv, Unique, Abs

\* insert / insert_key_value: only the pair of that key changes; its key object is the stored one
\* (insert) or the new one (insert_key_value), a new key comes in with the given object
THEOREM InsertRef == ASSUME Inv, NEW k \in Keys, NEW r \in Ids, NEW v \in Vals, NEW upd \in BOOLEAN, Insert(k, r, v, upd)
                     PROVE  /\ Present(k) =>
                                 \E i \in 1..Len(slots) :
                                    /\ slots[i].k = k
                                    /\ Abs' = {p \in Abs : p.k # k} \cup {[k |-> k, r |-> IF upd THEN r ELSE slots[i].r, v |-> v]}
                            /\ ~Present(k) /\ Len(slots) < Cap => Abs' = Abs \cup {[k |-> k, r |-> r, v |-> v]}
                            /\ ~Present(k) /\ ~(Len(slots) < Cap) => Abs' = Abs
  <1>0. slots \in Seq(Pair) /\ Len(slots) \in Nat BY DEF Inv, TypeOK
  <1>u. \A a, b \in 1..Len(slots) : slots[a].k = slots[b].k => a = b BY DEF Inv, Unique
  <1>1. CASE Present(k)
    <2>1. PICK i \in 1..Len(slots) : /\ slots[i].k = k
                                     /\ slots' = [j \in 1..Len(slots) |-> IF j = i THEN [k |-> k, r |-> IF upd THEN r ELSE slots[i].r, v |-> v] ELSE slots[j]]
      BY <1>1 DEF Insert
    <2> DEFINE new == [k |-> k, r |-> IF upd THEN r ELSE slots[i].r, v |-> v]
    <2>n. new.k = k OBVIOUS
    <2>2. Len(slots') = Len(slots) BY <2>1, <1>0
    <2>3. \A j \in 1..Len(slots) : slots'[j] = IF j = i THEN new ELSE slots[j] BY <2>1
    <2>4. Abs' = {slots'[j] : j \in 1..Len(slots)} BY <2>2 DEF Abs
    <2>5. ASSUME NEW x \in Abs' PROVE x \in {p \in Abs : p.k # k} \cup {new}
      <3>1. PICK j \in 1..Len(slots) : x = slots'[j] BY <2>4
      <3>2. CASE j = i BY <3>1, <3>2, <2>3
      <3>3. CASE j # i
        <4>1. x = slots[j] BY <3>1, <3>3, <2>3
        <4>2. slots[j].k # k BY <3>3, <2>1, <1>u
        <4>. QED BY <4>1, <4>2 DEF Abs
      <3>. QED BY <3>2, <3>3
    <2>6. ASSUME NEW x \in {p \in Abs : p.k # k} \cup {new} PROVE x \in Abs'
      <3>1. CASE x = new BY <3>1, <2>3, <2>4
      <3>2. CASE x \in Abs /\ x.k # k
        <4>1. PICK j \in 1..Len(slots) : x = slots[j] BY <3>2 DEF Abs
        <4>2. j # i BY <4>1, <3>2, <2>1
        <4>. QED BY <4>1, <4>2, <2>3, <2>4
      <3>. QED BY <3>1, <3>2
    <2>7. Abs' = {p \in Abs : p.k # k} \cup {new} BY <2>5, <2>6
    <2>. QED BY <1>1, <2>1, <2>7
  <1>2. CASE ~Present(k) /\ Len(slots) < Cap
    <2> DEFINE new == [k |-> k, r |-> r, v |-> v]
    <2>1. slots' = Append(slots, new) BY <1>2 DEF Insert
    <2>2. Len(slots') = Len(slots) + 1 BY <2>1, <1>0
    <2>3. \A i \in 1..Len(slots) : slots'[i] = slots[i] BY <2>1, <1>0
    <2>4. slots'[Len(slots) + 1] = new BY <2>1, <1>0
    <2>5. Abs' = {slots'[i] : i \in 1..(Len(slots) + 1)} BY <2>2 DEF Abs
    <2>7. ASSUME NEW x \in Abs' PROVE x \in Abs \cup {new}
      <3>1. PICK i \in 1..(Len(slots) + 1) : x = slots'[i] BY <2>5
      <3>2. CASE i = Len(slots) + 1 BY <3>1, <3>2, <2>4
      <3>3. CASE i \in 1..Len(slots) BY <3>1, <3>3, <2>3 DEF Abs
      <3>. QED BY <3>2, <3>3, <1>0
    <2>8. ASSUME NEW x \in Abs \cup {new} PROVE x \in Abs'
      <3>1. CASE x = new BY <3>1, <2>4, <2>5, <1>0
      <3>2. CASE x \in Abs
        <4>1. PICK i \in 1..Len(slots) : x = slots[i] BY <3>2 DEF Abs
        <4>2. i \in 1..(Len(slots) + 1) BY <1>0
        <4>. QED BY <4>1, <4>2, <2>3, <2>5
      <3>. QED BY <3>1, <3>2
    <2>. QED BY <1>2, <2>7, <2>8
  <1>3. CASE ~Present(k) /\ ~(Len(slots) < Cap)
    <2>1. slots' = slots BY <1>3 DEF Insert
    <2>. QED BY <1>3, <2>1 DEF Abs
  <1>. QED BY <1>1, <1>2, <1>3

THEOREM SwapRemoveRef == ASSUME Inv, NEW i \in 1..Len(slots), SwapRemove(i)
                         PROVE  Abs' = Abs \ {slots[i]}
  <1> DEFINE n == Len(slots)
  <1>0. n \in Nat /\ n >= 1 /\ slots \in Seq(Pair) /\ i \in 1..n BY DEF Inv, TypeOK
  <1>1. slots' = [j \in 1..(n - 1) |-> IF j = i THEN slots[n] ELSE slots[j]] BY DEF SwapRemove
  <1>2. Len(slots') = n - 1 BY <1>0, <1>1
  <1>3. \A j \in 1..(n - 1) : slots'[j] = IF j = i THEN slots[n] ELSE slots[j] BY <1>1
  <1>4. Abs' = {slots'[j] : j \in 1..(n - 1)} BY <1>2 DEF Abs
  <1>u. \A a, b \in 1..n : slots[a] = slots[b] => a = b BY DEF Inv, Unique
  <1>5. ASSUME NEW x \in Abs' PROVE x \in Abs \ {slots[i]}
    <2>1. PICK j \in 1..(n - 1) : x = slots'[j] BY <1>4
    <2>2. CASE j = i
      <3>1. x = slots[n] BY <2>1, <2>2, <1>3
      <3>2. n # i BY <2>2, <1>0
      <3>3. slots[n] # slots[i] BY <3>2, <1>u, <1>0
      <3>. QED BY <3>1, <3>3, <1>0 DEF Abs
    <2>3. CASE j # i
      <3>1. x = slots[j] BY <2>1, <2>3, <1>3
      <3>2. j \in 1..n BY <1>0
      <3>3. slots[j] # slots[i] BY <2>3, <3>2, <1>u, <1>0
      <3>. QED BY <3>1, <3>2, <3>3 DEF Abs
    <2>. QED BY <2>2, <2>3
  <1>6. ASSUME NEW x \in Abs \ {slots[i]} PROVE x \in Abs'
    <2>1. PICK j \in 1..n : x = slots[j] BY DEF Abs
    <2>2. j # i BY <2>1
    <2>3. CASE j = n
      <3>1. i \in 1..(n - 1) BY <2>2, <2>3, <1>0
      <3>2. slots'[i] = slots[n] BY <3>1, <1>3
      <3>. QED BY <2>1, <2>3, <3>1, <3>2, <1>4
    <2>4. CASE j # n
      <3>1. j \in 1..(n - 1) BY <2>4, <1>0
      <3>2. slots'[j] = slots[j] BY <3>1, <2>2, <1>3
      <3>. QED BY <2>1, <3>1, <3>2, <1>4
    <2>. QED BY <2>3, <2>4
  <1>. QED BY <1>5, <1>6

THEOREM PopBackRef == ASSUME Inv, PopBack PROVE Abs' = Abs \ {slots[Len(slots)]}
  <1> DEFINE n == Len(slots)
  <1>0. n \in Nat /\ n >= 1 /\ slots \in Seq(Pair) BY DEF Inv, TypeOK, PopBack
  <1>1. slots' = [j \in 1..(n - 1) |-> slots[j]] BY DEF PopBack
  <1>2. Len(slots') = n - 1 BY <1>0, <1>1
  <1>3. \A j \in 1..(n - 1) : slots'[j] = slots[j] BY <1>1
  <1>4. Abs' = {slots'[j] : j \in 1..(n - 1)} BY <1>2 DEF Abs
  <1>u. \A a, b \in 1..n : slots[a] = slots[b] => a = b BY DEF Inv, Unique
  <1>5. ASSUME NEW x \in Abs' PROVE x \in Abs \ {slots[n]}
    <2>1. PICK j \in 1..(n - 1) : x = slots'[j] BY <1>4
    <2>2. x = slots[j] /\ j \in 1..n /\ j # n BY <2>1, <1>3, <1>0
    <2>3. slots[j] # slots[n] BY <2>2, <1>u, <1>0
    <2>. QED BY <2>2, <2>3 DEF Abs
  <1>6. ASSUME NEW x \in Abs \ {slots[n]} PROVE x \in Abs'
    <2>1. PICK j \in 1..n : x = slots[j] BY DEF Abs
    <2>2. j # n BY <2>1
    <2>3. j \in 1..(n - 1) BY <2>2, <1>0
    <2>. QED BY <2>1, <2>3, <1>3, <1>4
  <1>. QED BY <1>5, <1>6

THEOREM ClearRef == ASSUME Clear PROVE Abs' = {}
  BY DEF Clear, Abs

\* a scan that stops at a slot holding the key returns the value the ideal map holds for it
THEOREM GetRef == ASSUME Inv, NEW k, NEW i \in 1..Len(slots), slots[i].k = k
                  PROVE  \A p \in Abs : p.k = k => p.v = slots[i].v
  BY DEF Inv, Unique, Abs
=============================================================================
