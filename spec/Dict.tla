------------------------------- MODULE Dict -------------------------------
(***************************************************************************)
(* The reference model the properties talk about: an ideal bounded          *)
(* dictionary / set.  A content D is a SET of tagged entries                *)
(* [c, r, v, kt, vt] with pairwise different classes; there is no slot      *)
(* order, and iteration may yield the entries in any order.                 *)
(*                                                                         *)
(* DictAllows(D, cap, op, res) says whether res = [ret, post, dk, dv, lk,   *)
(* lv] (post a SET of tagged entries) is an outcome the ideal dictionary    *)
(* of capacity cap permits for the call op in content D.  It is written     *)
(* independently of Map.tla (no scans, no indices).  TLC checks that the    *)
(* implementation-shaped layer refines it (MapSpec!RefinesDict) and the     *)
(* trace specification validates recorded executions of the real code       *)
(* against it (Trace.tla).  Tags are opaque ids (positional in generation,  *)
(* object serial numbers in traces).                                        *)
(***************************************************************************)
EXTENDS Naturals, Sequences, FiniteSets

DNoWrite == 99
DFreshTag == 31

DHas(D, c) == \E e \in D : e.c = c
DAt(D, c)  == CHOOSE e \in D : e.c = c
DE(k, v)   == [c |-> k.c, r |-> k.r, kt |-> k.kt, v |-> v.v, vt |-> v.vt]
DSetVal(e, v) == [e EXCEPT !.v = v.v, !.vt = v.vt]
DWrite(e, w)  == IF w = DNoWrite THEN e ELSE [e EXCEPT !.v = w]

DUniqueKeys(D) == \A a, b \in D : a.c = b.c => a = b

\* JSON-able forms (the same shapes as Map!JKey ... Map!REnt)
DJKey(e) == <<e.kt, e.c, e.r>>
DJVal(e) == <<e.vt, e.v>>
DJEnt(e) == <<e.kt, e.c, e.r, e.vt, e.v>>
DRKey(e) == <<"key">> \o DJKey(e)
DRVal(e) == <<"val">> \o DJVal(e)
DREnt(e) == <<"ent">> \o DJEnt(e)

DRange(s) == {s[i] : i \in 1..Len(s)}
DNoRepeat(s) == \A i, j \in 1..Len(s) : s[i] = s[j] => i = j
DKT(S) == {e.kt : e \in S}
DVT(S) == {e.vt : e \in S}

\* comparison of tagged return values: the tag decides the shape
Is(ret, exp) == ret[1] = exp[1] /\ ret = exp

Out(res, ret, post, dk, dv) ==
  /\ Is(res.ret, ret) /\ res.post = post /\ res.dk = dk /\ res.dv = dv /\ res.lk = {} /\ res.lv = {}
Same(res, D) == res.post = D /\ res.dk = {} /\ res.dv = {} /\ res.lk = {} /\ res.lv = {}

\* ------------------------------------------------------------- inserts --
DInsert(D, cap, k, v, res) ==
  IF DHas(D, k.c) THEN LET e == DAt(D, k.c) IN
       Out(res, DRVal(e), (D \ {e}) \cup {DSetVal(e, v)}, {k.kt}, {})   \* old key object kept, new one discarded
  ELSE IF Cardinality(D) < cap THEN Out(res, <<"none">>, D \cup {DE(k, v)}, {}, {})
  ELSE Out(res, <<"panic">>, D, {k.kt}, {v.vt})

DInsertKeyValue(D, cap, k, v, res) ==
  IF DHas(D, k.c) THEN LET e == DAt(D, k.c) IN
       Out(res, DREnt(e), (D \ {e}) \cup {DE(k, v)}, {}, {})            \* new key stored, old pair handed back
  ELSE IF Cardinality(D) < cap THEN Out(res, <<"none">>, D \cup {DE(k, v)}, {}, {})
  ELSE Out(res, <<"panic">>, D, {k.kt}, {v.vt})

DCheckedInsert(D, cap, k, v, res) ==
  IF DHas(D, k.c) THEN LET e == DAt(D, k.c) IN
       Out(res, <<"some_val">> \o DJVal(e), (D \ {e}) \cup {DSetVal(e, v)}, {k.kt}, {})
  ELSE IF Cardinality(D) < cap THEN Out(res, <<"some_none">>, D \cup {DE(k, v)}, {}, {})
  ELSE Out(res, <<"none">>, D, {k.kt}, {v.vt})

\* ------------------------------------------------------------- lookups --
DGet(D, c, res) ==
  /\ Same(res, D)
  /\ IF DHas(D, c) THEN Is(res.ret, DRVal(DAt(D, c))) ELSE Is(res.ret, <<"none">>)
DGetKeyValue(D, c, res) ==
  /\ Same(res, D)
  /\ IF DHas(D, c) THEN Is(res.ret, DREnt(DAt(D, c))) ELSE Is(res.ret, <<"none">>)
DContains(D, c, res) == Same(res, D) /\ Is(res.ret, <<"b", DHas(D, c)>>)
DGetMut(D, c, w, absent, res) ==        \* absent = <<"none">> for get_mut, <<"panic">> for index_mut
  IF DHas(D, c) THEN LET e == DAt(D, c) IN Out(res, DRVal(e), (D \ {e}) \cup {DWrite(e, w)}, {}, {})
  ELSE Out(res, absent, D, {}, {})

\* ------------------------------------------------------------ removals --
DRemove(D, c, res) ==
  IF DHas(D, c) THEN LET e == DAt(D, c) IN Out(res, DRVal(e), D \ {e}, {e.kt}, {})
  ELSE Out(res, <<"none">>, D, {}, {})
DRemoveEntry(D, c, res) ==
  IF DHas(D, c) THEN LET e == DAt(D, c) IN Out(res, DREnt(e), D \ {e}, {}, {})
  ELSE Out(res, <<"none">>, D, {}, {})
DRetain(D, keep, w, res) ==
  LET kept == {e \in D : e.c \in keep} IN
  Out(res, <<"unit">>, {DWrite(e, w) : e \in kept}, DKT(D \ kept), DVT(D \ kept))
DClear(D, res) == Out(res, <<"unit">>, {}, DKT(D), DVT(D))

\* ------------------------------------------------------------- cursors --
\* An ideal container yields its entries in ANY order, each exactly once.
DProj(kind, e) ==
  CASE kind \in {"iter", "iter_mut", "into_iter", "drain"} -> DJEnt(e)
    [] kind \in {"keys", "into_keys", "s_iter", "s_into_iter", "s_drain"} -> DJKey(e)
    [] kind \in {"values", "values_mut", "into_values"} -> DJVal(e)

\* ret = [yield, lens, rem]: n items taken, exact lengths before each poll,
\* rem = what the cursor still holds (as shown by Debug / a clone / count)
\* op = the cursor op: op.fin \in {"none", "nth", "find", "find_map", "any", "all", "position", "last", "min_by", "max_by",
\* "fold", "for_each", "reduce", "collect"} (with op.j) says how the
\* rest is consumed after the n plain next() calls; F = the entries that call hands to the caller
DEpisode(D, kind, n, op, ret, Y, F) ==   \* Y = the set of entries that were yielded
  /\ Len(ret.yield) = n /\ DNoRepeat(ret.yield)
  /\ Y \subseteq D /\ Cardinality(Y) = n
  /\ DRange(ret.yield) = {DProj(kind, e) : e \in Y}
  \* what the cursor still holds, as shown by Debug / a clone (a recorded execution marks cursors
  \* that offer neither with `norem`)
  /\ \/ "norem" \in DOMAIN ret
     \/ /\ DNoRepeat(ret.rem) /\ DRange(ret.rem) = {DProj(kind, e) : e \in D \ Y}
        /\ Len(ret.rem) = Cardinality(D) - n
  /\ ret.lens = [j \in 1..(n + 1) |-> Cardinality(D) - (j - 1)]
  /\ LET m == Cardinality(D) - n IN      \* items still to come
     /\ F \subseteq D \ Y /\ DNoRepeat(ret.fin.r) /\ DRange(ret.fin.r) = {DProj(kind, e) : e \in F}
     /\ CASE op.fin = "none" -> F = {} /\ ret.fin.some = "nofin" /\ ret.fin.after = m
          [] op.fin \in {"nth", "find", "find_map"} ->
                                IF op.j < m THEN Cardinality(F) = 1 /\ ret.fin.some = "item" /\ ret.fin.after = m - op.j - 1
                                ELSE F = {} /\ ret.fin.some = "none" /\ ret.fin.after = 0
          [] op.fin \in {"any", "all", "position"} ->      \* short-circuit at index j, or run through everything
                                IF op.j < m THEN F = {} /\ ret.fin.some = "hit" /\ ret.fin.after = m - op.j - 1
                                ELSE F = {} /\ ret.fin.some = "miss" /\ ret.fin.after = 0
          [] op.fin \in {"last", "min_by", "max_by"} -> IF m > 0 THEN Cardinality(F) = 1 /\ ret.fin.some = "item" /\ ret.fin.after = 0
                                ELSE F = {} /\ ret.fin.some = "none" /\ ret.fin.after = 0
          [] op.fin \in {"fold", "for_each", "reduce", "collect"} -> F = D \ Y /\ ret.fin.some = "seq" /\ ret.fin.after = 0

DYielded(D, kind, ret) == {e \in D : \E i \in 1..Len(ret.yield) : ret.yield[i] = DProj(kind, e)}
DTaken(D, kind, ret) == {e \in D : \E i \in 1..Len(ret.fin.r) : ret.fin.r[i] = DProj(kind, e)}
\* ownership of what a consuming cursor neither yielded nor handed out (G): when the cursor is
\* dropped all of it is destroyed; when it is forgotten exactly what was still inside leaks and
\* what a provided method skipped over has been destroyed
DRestOwnership(G, end, after, dkG, lkG) ==
  IF end = "drop" THEN dkG = DKT(G) /\ lkG = {}
  ELSE lkG \subseteq DKT(G) /\ Cardinality(lkG) = after /\ dkG = DKT(G) \ lkG

DDrain(D, kind, op, res) ==
  LET n == op.n
      Y == DYielded(D, kind, res.ret)
      F == DTaken(D, kind, res.ret)
      G == D \ (Y \cup F)
      gone == {e \in G : e.kt \in res.dk}
      leak == {e \in G : e.kt \in res.lk} IN
  /\ n <= Cardinality(D)
  /\ DEpisode(D, kind, n, op, res.ret, Y, F)
  /\ res.post = {}
  /\ DRestOwnership(G, op.end, res.ret.fin.after, res.dk, res.lk)
  /\ res.dv = DVT(gone) /\ res.lv = DVT(leak)

DBorrowCursor(D, kind, op, w, res) ==
  LET n == op.n
      Y == DYielded(D, kind, res.ret) IN
  /\ n <= Cardinality(D)
  /\ DEpisode(D, kind, n, op, res.ret, Y, DTaken(D, kind, res.ret))
  /\ res.post = IF kind \in {"iter_mut", "values_mut"} THEN (D \ Y) \cup {DWrite(e, w) : e \in Y} ELSE D
  /\ res.dk = {} /\ res.dv = {} /\ res.lk = {} /\ res.lv = {}

DConsumeCursor(D, kind, op, res) ==
  LET n == op.n
      Y == DYielded(D, kind, res.ret)
      F == DTaken(D, kind, res.ret)
      out == Y \cup F                      \* handed to the caller (one half of it for the projections)
      G == D \ out
      leak == {e \in G : e.kt \in res.lk}
      gone == G \ leak IN
  /\ n <= Cardinality(D)
  /\ DEpisode(D, kind, n, op, res.ret, Y, F)
  /\ res.post = {}
  /\ res.lk \subseteq DKT(G) /\ Cardinality(res.lk) = (IF op.end = "forget" THEN res.ret.fin.after ELSE 0)
  /\ res.dk = DKT(gone) \cup (IF kind = "into_values" THEN DKT(out) ELSE {})
  /\ res.dv = DVT(gone) \cup (IF kind = "into_keys" THEN DVT(out) ELSE {})
  /\ res.lv = DVT(leak)

\* --------------------------------------------------------------- entry --
\* The Entry API must behave like the direct operations on that key.
DEntry(D, cap, m, k, v, w, fresh, res) ==     \* fresh = tag of the object V::default() creates
  LET occ == DHas(D, k.c)
      e == DAt(D, k.c)
      full == Cardinality(D) >= cap
      takesV == m \in {"or_insert", "or_insert_with", "or_insert_with_key", "and_modify", "occ_insert", "vac_insert"}
      vdead == IF takesV THEN {v.vt} ELSE {}
      InsP(val, ret, pret) == IF full THEN Out(res, pret, D, {k.kt}, {val.vt})
                              ELSE Out(res, ret, D \cup {DE(k, val)}, {}, {})
      Ins(val, ret) == InsP(val, ret, <<"panic">>)
  IN
  CASE m = "key" -> Out(res, IF occ THEN <<"occk">> \o DJKey(e) ELSE <<"vack", k.kt, k.c, k.r>>, D, {k.kt}, {})
    [] m = "or_insert" ->
         IF occ THEN Out(res, <<"occ">> \o DJVal(e), D, {k.kt}, {v.vt})
         ELSE Ins(v, <<"vac", v.vt, v.v>>)
    [] m = "or_insert_with" ->
         IF occ THEN Out(res, <<"occ">> \o DJVal(e) \o <<0>>, D, {k.kt}, {v.vt})
         ELSE InsP(v, <<"vac", v.vt, v.v, 1>>, <<"panic", 1>>)     \* closure exactly once iff vacant, also when the insert then overflows
    [] m = "or_insert_with_key" ->
         IF occ THEN Out(res, <<"occ">> \o DJVal(e) \o <<0, 0, 0, 0>>, D, {k.kt}, {v.vt})
         ELSE InsP(v, <<"vac", v.vt, v.v, 1, k.kt, k.c, k.r>>, <<"panic", 1>>)
    [] m = "or_default" ->
         IF occ THEN Out(res, <<"occ">> \o DJVal(e), D, {k.kt}, {})
         ELSE Ins([vt |-> fresh, v |-> 0], <<"vac", fresh, 0>>)
    [] m = "and_modify" ->
         IF occ THEN Out(res, <<"occ", e.vt, DWrite(e, w).v, 1>>, (D \ {e}) \cup {DWrite(e, w)}, {k.kt}, {v.vt})
         ELSE Ins(v, <<"vac", v.vt, v.v, 0>>)
    [] m \in {"occ_key", "occ_get", "occ_get_mut", "occ_into_mut", "occ_insert", "occ_remove", "occ_remove_entry"} /\ ~occ ->
         Out(res, <<"vac_skip">>, D, {k.kt}, vdead)
    [] m \in {"vac_key", "vac_into_key", "vac_insert"} /\ occ ->
         Out(res, <<"occ_skip">>, D, {k.kt}, vdead)
    [] m = "occ_key"          -> Out(res, <<"occk">> \o DJKey(e), D, {k.kt}, {})
    [] m = "occ_get"          -> Out(res, <<"occ">> \o DJVal(e), D, {k.kt}, {})
    [] m \in {"occ_get_mut", "occ_into_mut"} -> Out(res, <<"occ">> \o DJVal(e), (D \ {e}) \cup {DWrite(e, w)}, {k.kt}, {})
    [] m = "occ_insert"       -> Out(res, <<"occ">> \o DJVal(e), (D \ {e}) \cup {DSetVal(e, v)}, {k.kt}, {})
    [] m = "occ_remove"       -> Out(res, <<"occ">> \o DJVal(e), D \ {e}, {k.kt, e.kt}, {})
    [] m = "occ_remove_entry" -> Out(res, <<"occ">> \o DJEnt(e), D \ {e}, {k.kt}, {})
    [] m = "vac_key"          -> Out(res, <<"vack", k.kt, k.c, k.r>>, D, {k.kt}, {})
    [] m = "vac_into_key"     -> Out(res, <<"vack", k.kt, k.c, k.r>>, D, {}, {})
    [] m = "vac_insert"       -> Ins(v, <<"vac", v.vt, v.v>>)

\* ------------------------------------------------------ get_disjoint_mut --
\* position j gets exactly what get_mut(ks[j]) gets; panic iff two requested
\* keys are equal and present; for equal absent keys both outcomes are allowed
DDisjoint(D, ks, w, unchecked, res) ==
  LET dup == \E i, j \in 1..Len(ks) : i < j /\ ks[i] = ks[j]
      dupPresent == \E i, j \in 1..Len(ks) : i < j /\ ks[i] = ks[j] /\ DHas(D, ks[i])
      hit == {e \in D : \E j \in 1..Len(ks) : ks[j] = e.c}
      pos == <<"pos", [j \in 1..Len(ks) |-> IF DHas(D, ks[j]) THEN DRVal(DAt(D, ks[j])) ELSE <<"none">>]>>
      okPos == Out(res, pos, (D \ hit) \cup {DWrite(e, w) : e \in hit}, {}, {})
      okPanic == Out(res, <<"panic">>, D, {}, {})
  IN IF unchecked THEN ~dup /\ okPos        \* contract of the unsafe variant: pairwise different
     ELSE IF dupPresent THEN okPanic
     ELSE IF dup THEN okPanic \/ okPos
     ELSE okPos

\* --------------------------------------------------- bulk construction --
\* = inserting the items one at a time in order (first key object kept,
\* last value wins, repeats consume no capacity)
RECURSIVE DFold(_, _, _, _, _, _)
DFold(D, cap, items, j, dk, dv) ==
  IF j > Len(items) THEN [panic |-> FALSE, post |-> D, dk |-> dk, dv |-> dv, pulled |-> Len(items)]
  ELSE LET k == items[j].k
           v == items[j].v IN
       IF DHas(D, k.c) THEN LET e == DAt(D, k.c) IN
            DFold((D \ {e}) \cup {DSetVal(e, v)}, cap, items, j + 1, dk \cup {k.kt}, dv \cup {e.vt})
       ELSE IF Cardinality(D) < cap THEN DFold(D \cup {DE(k, v)}, cap, items, j + 1, dk, dv)
       ELSE [panic |-> TRUE, post |-> D, dk |-> dk, dv |-> dv, pulled |-> j]

DItemKT(items, from) == {items[j].k.kt : j \in from..Len(items)}
DItemVT(items, from) == {items[j].v.vt : j \in from..Len(items)}

DFromIterG(cap, items, res, withV) ==
  LET f == DFold({}, cap, items, 1, {}, {}) IN
  /\ res.ret = [r |-> IF f.panic THEN "panic" ELSE "ok", pulled |-> f.pulled]
  /\ res.lk = {} /\ res.lv = {}
  /\ IF f.panic THEN res.post = {} /\ res.dk = DItemKT(items, 1) /\ res.dv = (IF withV THEN DItemVT(items, 1) ELSE {})
     ELSE res.post = f.post /\ res.dk = f.dk /\ res.dv = (IF withV THEN f.dv ELSE {})
DFromIter(cap, items, res) == DFromIterG(cap, items, res, TRUE)

\* Set::extend: the receiver survives an overflow panic with the items inserted so far
DExtendG(D, cap, items, res, withV) ==
  LET f == DFold(D, cap, items, 1, {}, {}) IN
  /\ res.ret = [r |-> IF f.panic THEN "panic" ELSE "ok", pulled |-> f.pulled]
  /\ res.lk = {} /\ res.lv = {}
  /\ res.post = f.post
  /\ IF f.panic THEN res.dk = f.dk \cup DItemKT(items, f.pulled)
                   /\ res.dv = (IF withV THEN f.dv \cup DItemVT(items, f.pulled) ELSE {})
     ELSE res.dk = f.dk /\ res.dv = (IF withV THEN f.dv ELSE {})

\* ---------------------------------------------------------- formatting --
DFmt(D, res) ==
  /\ Same(res, D)
  /\ res.ret[1] = "ents" /\ DNoRepeat(res.ret[2]) /\ DRange(res.ret[2]) = {DJEnt(e) : e \in D}

\* ------------------------------------------------------------------ Set --
\* unit values are not objects: every value-tag set of a Set result is empty
DSInsert(D, cap, k, res) ==              \* true exactly when the element was absent
  IF DHas(D, k.c) THEN Out(res, <<"b", FALSE>>, D, {k.kt}, {})
  ELSE IF Cardinality(D) < cap THEN Out(res, <<"b", TRUE>>, D \cup {DE(k, [vt |-> 0, v |-> 0])}, {}, {})
  ELSE Out(res, <<"panic">>, D, {k.kt}, {})
DSReplace(D, cap, k, res) ==
  IF DHas(D, k.c) THEN LET e == DAt(D, k.c) IN Out(res, DRKey(e), (D \ {e}) \cup {DE(k, [vt |-> 0, v |-> 0])}, {}, {})
  ELSE IF Cardinality(D) < cap THEN Out(res, <<"none">>, D \cup {DE(k, [vt |-> 0, v |-> 0])}, {}, {})
  ELSE Out(res, <<"panic">>, D, {k.kt}, {})
DSGet(D, c, res) ==
  /\ Same(res, D)
  /\ IF DHas(D, c) THEN Is(res.ret, DRKey(DAt(D, c))) ELSE Is(res.ret, <<"none">>)
DSRemove(D, c, res) ==
  IF DHas(D, c) THEN LET e == DAt(D, c) IN Out(res, <<"b", TRUE>>, D \ {e}, {e.kt}, {})
  ELSE Out(res, <<"b", FALSE>>, D, {}, {})
DSTake(D, c, res) ==
  IF DHas(D, c) THEN LET e == DAt(D, c) IN Out(res, DRKey(e), D \ {e}, {}, {})
  ELSE Out(res, <<"none">>, D, {}, {})
DSRetain(D, keep, res) == Out(res, <<"unit">>, {e \in D : e.c \in keep}, DKT({e \in D : e.c \notin keep}), {})
DSClear(D, res) == Out(res, <<"unit">>, {}, DKT(D), {})
DSDrain(D, op, res) ==
  LET Y == DYielded(D, "s_drain", res.ret)
      F == DTaken(D, "s_drain", res.ret)
      G == D \ (Y \cup F) IN
  /\ op.n <= Cardinality(D) /\ DEpisode(D, "s_drain", op.n, op, res.ret, Y, F) /\ res.post = {} /\ res.dv = {} /\ res.lv = {}
  /\ DRestOwnership(G, op.end, res.ret.fin.after, res.dk, res.lk)
DSIter(D, op, res) == DBorrowCursor(D, "s_iter", op, DNoWrite, res)
DSIntoIter(D, op, res) ==
  LET Y == DYielded(D, "s_into_iter", res.ret)
      F == DTaken(D, "s_into_iter", res.ret)
      G == D \ (Y \cup F) IN
  /\ op.n <= Cardinality(D) /\ DEpisode(D, "s_into_iter", op.n, op, res.ret, Y, F) /\ res.post = {} /\ res.dv = {} /\ res.lv = {}
  /\ DRestOwnership(G, op.end, res.ret.fin.after, res.dk, res.lk)
DSExtend(D, cap, items, res) == DExtendG(D, cap, items, res, FALSE)
DSFromIter(cap, items, res) == DFromIterG(cap, items, res, FALSE)

\* ---------------------------------------------------------------- clone --
\* a clone holds the same entries, made of exactly one clone per key and value object
\* (tag 20 + source), and the two copies are independent afterwards
DCloneSet(D) == {[e EXCEPT !.kt = 20 + e.kt, !.vt = IF e.vt = 0 THEN 0 ELSE 20 + e.vt] : e \in D}
DSub(D, cap, op) ==      \* [ret, post, dk, dv] of the follow-up operation, ideal semantics
  LET unit == [vt |-> 0, v |-> 0] IN
  CASE op.name = "none" -> [ret |-> <<"unit">>, post |-> D, dk |-> {}, dv |-> {}]
    [] op.name \in {"insert", "s_insert"} ->
         LET v == IF op.name = "insert" THEN op.v ELSE unit
             k == op.k IN
         IF DHas(D, k.c) THEN LET e == DAt(D, k.c) IN
              [ret |-> IF op.name = "insert" THEN DRVal(e) ELSE <<"b", FALSE>>,
               post |-> (D \ {e}) \cup {DSetVal(e, v)}, dk |-> {k.kt}, dv |-> {}]
         ELSE IF Cardinality(D) < cap THEN
              [ret |-> IF op.name = "insert" THEN <<"none">> ELSE <<"b", TRUE>>, post |-> D \cup {DE(k, v)}, dk |-> {}, dv |-> {}]
         ELSE [ret |-> <<"panic">>, post |-> D, dk |-> {k.kt}, dv |-> IF op.name = "insert" THEN {v.vt} ELSE {}]
    [] op.name \in {"remove", "s_remove"} ->
         IF DHas(D, op.c) THEN LET e == DAt(D, op.c) IN
              [ret |-> IF op.name = "remove" THEN DRVal(e) ELSE <<"b", TRUE>>, post |-> D \ {e}, dk |-> {e.kt}, dv |-> {}]
         ELSE [ret |-> IF op.name = "remove" THEN <<"none">> ELSE <<"b", FALSE>>, post |-> D, dk |-> {}, dv |-> {}]
    [] op.name = "get_mut" ->
         IF DHas(D, op.c) THEN LET e == DAt(D, op.c) IN
              [ret |-> DRVal(e), post |-> (D \ {e}) \cup {DWrite(e, op.w)}, dk |-> {}, dv |-> {}]
         ELSE [ret |-> <<"none">>, post |-> D, dk |-> {}, dv |-> {}]
    [] op.name \in {"clear", "s_clear"} ->
         [ret |-> <<"unit">>, post |-> {}, dk |-> DKT(D), dv |-> IF op.name = "clear" THEN DVT(D) ELSE {}]

DClone(D, cap, then, on, survivor, res) ==
  LET C == DCloneSet(D)
      r == DSub(IF on = "orig" THEN D ELSE C, cap, then)
      origPost == IF on = "orig" THEN r.post ELSE D
      copyPost == IF on = "copy" THEN r.post ELSE C
      keep == IF survivor = "orig" THEN origPost ELSE copyPost
      gone == IF survivor = "orig" THEN copyPost ELSE origPost
  IN /\ DNoRepeat(res.ret.cl) /\ DRange(res.ret.cl) = {DJEnt(e) : e \in C}
     /\ Is(res.ret.then, r.ret)
     /\ DNoRepeat(res.ret.other) /\ DRange(res.ret.other) = {DJEnt(e) : e \in (IF on = "orig" THEN C ELSE D)}
     /\ res.post = keep
     /\ res.dk = r.dk \cup DKT(gone) /\ res.dv = r.dv \cup (DVT(gone) \ {0})
     /\ res.lk = {} /\ res.lv = {}

\* clone_from: afterwards the destination holds exactly the entries of the source (made of one
\* clone per object) and compares equal to it; the source is untouched; whatever the destination
\* held before is destroyed (the destination itself is dropped at the end of the step)
DCloneFrom(D, op, res) ==
  LET C == DCloneSet(D) IN
  /\ res.post = D /\ res.lk = {} /\ res.lv = {}
  /\ DNoRepeat(res.ret.cl) /\ DRange(res.ret.cl) = {DJEnt(e) : e \in C} /\ res.ret.eq
  /\ res.dk \cap DKT(D) = {} /\ res.dv \cap DVT(D) = {}
  /\ DKT(C) \subseteq res.dk /\ {60 + i : i \in 1..Len(op.dst)} \subseteq res.dk

\* ---------------------------------------------------------------- serde --
\* exactly len() entries are announced and emitted; decoding into a container of
\* sufficient capacity gives one equal to the original
DSerde(D, m, res) ==
  /\ Same(res, D)
  /\ res.ret.announced = Cardinality(D) /\ res.ret.emitted = Cardinality(D)
  /\ m >= Cardinality(D) =>
        /\ res.ret.ok /\ res.ret.eq
        /\ {<<x[2], x[5]>> : x \in DRange(res.ret.de)} = {<<e.c, e.v>> : e \in D}
        /\ Len(res.ret.de) = Cardinality(D)

\* decoding a hand-made stream with repeated keys / too many keys: the fold of ideal inserts, or refused
DDeItems(D, cap, items, res) ==
  LET f == DFold({}, cap, items, 1, {}, {}) IN
  /\ Same(res, D)
  /\ res.ret.ok = ~f.panic
  /\ ~f.panic => /\ {<<x[2], x[3], x[5]>> : x \in DRange(res.ret.de)} = {<<e.c, e.r, e.v>> : e \in f.post}
                 /\ Len(res.ret.de) = Cardinality(f.post)

\* ---------------------------------------------- set algebra (recorded executions) --
\* the container against a second set holding the classes op.b: the lazy adaptors yield exactly the
\* mathematical result without repeats, the predicates tell the truth, the container is unchanged
DSAlgebra(D, op, res) ==
  LET A == {e.c : e \in D}
      B == DRange(op.b)
      want == CASE op.kind = "union" -> A \cup B
                [] op.kind = "intersection" -> A \cap B
                [] op.kind = "difference" -> A \ B
                [] op.kind = "symmetric_difference" -> (A \ B) \cup (B \ A)
  IN /\ Same(res, D)
     /\ DNoRepeat(res.ret.y) /\ DRange(res.ret.y) = want
     /\ res.ret.sub = (A \subseteq B) /\ res.ret.sup = (B \subseteq A) /\ res.ret.dis = (A \cap B = {})

\* the container against ANOTHER container of a different capacity holding the entries op.b
\* ([class, value content], in an unrelated slot order): ==, != and == the other way round tell
\* whether the two hold the same key-value pairs - nothing else matters (C14)
DEqOther(D, op, res) ==
  LET mine == {<<e.c, e.v>> : e \in D}
      theirs == {<<x[1], x[2]>> : x \in DRange(op.b)}
      eq == mine = theirs
  IN Same(res, D) /\ res.ret = <<"eqs", eq, ~eq, eq>>

\* ------------------------------------------------------------ dispatch --
DictAllows(D, cap, op, res) ==
  CASE op.name = "insert"           -> DInsert(D, cap, op.k, op.v, res)
    [] op.name = "insert_unchecked" -> (DHas(D, op.k.c) \/ Cardinality(D) < cap) /\ DInsert(D, cap, op.k, op.v, res)
    [] op.name = "insert_key_value" -> DInsertKeyValue(D, cap, op.k, op.v, res)
    [] op.name = "checked_insert"   -> DCheckedInsert(D, cap, op.k, op.v, res)
    [] op.name = "get"              -> DGet(D, op.c, res)
    [] op.name = "get_key_value"    -> DGetKeyValue(D, op.c, res)
    [] op.name = "contains_key"     -> DContains(D, op.c, res)
    [] op.name = "get_mut"          -> DGetMut(D, op.c, op.w, <<"none">>, res)
    [] op.name = "index"            -> DGetMut(D, op.c, DNoWrite, <<"panic">>, res)
    [] op.name = "index_mut"        -> DGetMut(D, op.c, op.w, <<"panic">>, res)
    [] op.name = "remove"           -> DRemove(D, op.c, res)
    [] op.name = "remove_entry"     -> DRemoveEntry(D, op.c, res)
    [] op.name = "retain"           -> DRetain(D, op.keep, op.w, res)
    [] op.name = "clear"            -> DClear(D, res)
    [] op.name = "drop"             -> DClear(D, res)
    [] op.name = "default"          -> DClear(D, res)            \* a new empty container replaces the old one
    [] op.name = "s_default"        -> DSClear(D, res)
    [] op.name = "with_capacity"    -> IF op.c = cap THEN DClear(D, res) ELSE Out(res, <<"panic">>, D, {}, {})
    [] op.name = "s_algebra"        -> DSAlgebra(D, op, res)
    [] op.name \in {"eq_other", "s_eq_other"} -> DEqOther(D, op, res)
    [] op.name \in {"eq_clone", "s_eq_clone"} -> Same(res, D) /\ Is(res.ret, <<"b", TRUE>>)    \* a container equals its own clone, both ways
    [] op.name = "iter_defaults"    -> Same(res, D) /\ res.ret[1] = "lens" /\ \A i \in 1..Len(res.ret[2]) : res.ret[2][i] = 0
    [] op.name = "s_drop"           -> DSClear(D, res)
    [] op.name = "drain"            -> DDrain(D, "drain", op, res)
    [] op.name = "cursor" /\ op.kind \in {"iter", "iter_mut", "keys", "values", "values_mut"}
                                    -> DBorrowCursor(D, op.kind, op, op.w, res)
    [] op.name = "cursor" /\ op.kind \in {"into_iter", "into_keys", "into_values"}
                                    -> DConsumeCursor(D, op.kind, op, res)
    [] op.name = "entry"            -> DEntry(D, cap, op.m, op.k, op.v, op.w, IF "fresh" \in DOMAIN op THEN op.fresh ELSE DFreshTag, res)
    [] op.name = "disjoint"         -> DDisjoint(D, op.ks, op.w, op.unchecked, res)
    [] op.name \in {"from_iter", "from_array"} -> DFromIter(cap, op.items, res)
    [] op.name = "fmt"              -> DFmt(D, res)
    [] op.name = "s_insert"         -> DSInsert(D, cap, op.k, res)
    [] op.name = "s_replace"        -> DSReplace(D, cap, op.k, res)
    [] op.name = "s_contains"       -> DContains(D, op.c, res)
    [] op.name = "s_get"            -> DSGet(D, op.c, res)
    [] op.name = "s_remove"         -> DSRemove(D, op.c, res)
    [] op.name = "s_take"           -> DSTake(D, op.c, res)
    [] op.name = "s_retain"         -> DSRetain(D, op.keep, res)
    [] op.name = "s_clear"          -> DSClear(D, res)
    [] op.name = "s_drain"          -> DSDrain(D, op, res)
    [] op.name = "s_iter"           -> DSIter(D, op, res)
    [] op.name = "s_into_iter"      -> DSIntoIter(D, op, res)
    [] op.name = "s_extend"         -> DSExtend(D, cap, op.items, res)
    [] op.name \in {"s_from_iter", "s_from_array"} -> DSFromIter(cap, op.items, res)
    [] op.name = "s_fmt"            -> DFmt(D, res)
    [] op.name = "clone"            -> DClone(D, cap, op.then, op.on, op.survivor, res)
    [] op.name \in {"clone_from", "s_clone_from"} -> DCloneFrom(D, op, res)
    [] op.name = "serde"            -> DSerde(D, op.m, res)
    [] op.name = "de_items"         -> DDeItems(D, cap, op.stream, res)

=============================================================================
