----------------------------- MODULE MapProofEq -----------------------------
(***************************************************************************)
(* TLAPS, unbounded sizes: equality is EXTENSIONAL (C14).  eq.rs compares   *)
(*     self.len() == other.len()                                            *)
(*       && self.iter().all(|(k, v)| other.get(k) == Some(v))               *)
(* i.e. equal lengths and every pair of the left operand is found (by a     *)
(* scan) in the right operand.  For two slot sequences with pairwise        *)
(* different keys - of ANY lengths, in ANY slot orders, whatever their      *)
(* capacities - that is the case exactly when both hold the same set of     *)
(* key-value pairs (theorem EqExtensional); hence == is reflexive and       *)
(* symmetric (corollaries).  The "only if" direction is a counting          *)
(* argument: an inclusion between finite sets of the same size is an        *)
(* equality; the size of the abstraction is the length of the slot          *)
(* sequence because keys are pairwise different.  The same argument shows   *)
(* that Set::is_subset / is_superset (with their length shortcut) and       *)
(* is_disjoint (scanning the shorter operand) tell the mathematical truth   *)
(* (C08): SubsetRef, SupersetRef, DisjointRef.                              *)
(***************************************************************************)
EXTENDS Integers, Sequences, FiniteSets, Functions, FiniteSetTheorems, TLAPS

CONSTANTS Keys, Vals
Pair == [k : Keys, v : Vals]
Unique(s) == \A i, j \in 1..Len(s) : s[i].k = s[j].k => i = j
Abs(s) == {s[i] : i \in 1..Len(s)}

\* eq.rs, transcribed (get(k) scans for the key; == Some(v) compares the value found)
EqCode(a, b) ==
  /\ Len(a) = Len(b)
  /\ \A i \in 1..Len(a) : \E j \in 1..Len(b) : b[j].k = a[i].k /\ b[j].v = a[i].v

LEMMA AbsCard == ASSUME NEW s \in Seq(Pair), Unique(s)
                 PROVE  IsFiniteSet(Abs(s)) /\ Cardinality(Abs(s)) = Len(s)
  <1> DEFINE n == Len(s)
             f == [j \in 1..n |-> s[j]]
  <1>0. n \in Nat OBVIOUS
  <1>1. f \in [1..n -> Abs(s)] BY DEF Abs
  <1>2. IsInjective(f)
    <2> SUFFICES ASSUME NEW x \in 1..n, NEW y \in 1..n, f[x] = f[y] PROVE x = y BY DEF IsInjective
    <2>1. s[x].k = s[y].k OBVIOUS
    <2>. QED BY <2>1 DEF Unique
  <1>3. \A t \in Abs(s) : \E j \in 1..n : f[j] = t BY DEF Abs
  <1>4. f \in Bijection(1..n, Abs(s)) BY <1>1, <1>2, <1>3 DEF Bijection, Injection, Surjection
  <1>5. ExistsBijection(1..n, Abs(s)) BY <1>4 DEF ExistsBijection
  <1>6. IsFiniteSet(1..n) /\ Cardinality(1..n) = n BY <1>0, FS_Interval
  <1>7. IsFiniteSet(Abs(s)) /\ Cardinality(Abs(s)) = Cardinality(1..n) BY <1>5, <1>6, FS_Bijection
  <1>. QED BY <1>6, <1>7

THEOREM EqExtensional == ASSUME NEW a \in Seq(Pair), NEW b \in Seq(Pair), Unique(a), Unique(b)
                         PROVE  EqCode(a, b) <=> Abs(a) = Abs(b)
  <1>ca. IsFiniteSet(Abs(a)) /\ Cardinality(Abs(a)) = Len(a) BY AbsCard
  <1>cb. IsFiniteSet(Abs(b)) /\ Cardinality(Abs(b)) = Len(b) BY AbsCard
  <1>1. ASSUME EqCode(a, b) PROVE Abs(a) = Abs(b)
    <2>1. Len(a) = Len(b) BY <1>1 DEF EqCode
    <2>2. Abs(a) \subseteq Abs(b)
      <3> SUFFICES ASSUME NEW i \in 1..Len(a) PROVE a[i] \in Abs(b) BY DEF Abs
      <3>1. PICK j \in 1..Len(b) : b[j].k = a[i].k /\ b[j].v = a[i].v BY <1>1 DEF EqCode
      <3>2. a[i] \in Pair /\ b[j] \in Pair OBVIOUS
      <3>3. a[i] = b[j] BY <3>1, <3>2 DEF Pair
      <3>. QED BY <3>3 DEF Abs
    <2>3. Abs(a) \in SUBSET Abs(b) BY <2>2
    <2>4. Cardinality(Abs(b)) = Cardinality(Abs(a)) BY <2>1, <1>ca, <1>cb
    <2>. QED BY <2>3, <2>4, <1>cb, FS_Subset
  <1>2. ASSUME Abs(a) = Abs(b) PROVE EqCode(a, b)
    <2>1. Len(a) = Len(b) BY <1>2, <1>ca, <1>cb
    <2>2. ASSUME NEW i \in 1..Len(a) PROVE \E j \in 1..Len(b) : b[j].k = a[i].k /\ b[j].v = a[i].v
      <3>1. a[i] \in Abs(b) BY <1>2 DEF Abs
      <3>2. PICK j \in 1..Len(b) : a[i] = b[j] BY <3>1 DEF Abs
      <3>. QED BY <3>2
    <2>. QED BY <2>1, <2>2 DEF EqCode
  <1>. QED BY <1>1, <1>2

COROLLARY EqReflexive == ASSUME NEW a \in Seq(Pair), Unique(a) PROVE EqCode(a, a)
  BY EqExtensional

COROLLARY EqSymmetric == ASSUME NEW a \in Seq(Pair), NEW b \in Seq(Pair), Unique(a), Unique(b), EqCode(a, b)
                         PROVE  EqCode(b, a)
  BY EqExtensional

\* ------------------------------------------------- the predicates of Set --
\* set/methods.rs, transcribed (contains scans for the element)
KRange(s) == {s[i].k : i \in 1..Len(s)}
Contains(b, x) == \E j \in 1..Len(b) : b[j].k = x
SubsetCode(a, b) == IF Len(a) <= Len(b) THEN \A i \in 1..Len(a) : Contains(b, a[i].k) ELSE FALSE
SupersetCode(a, b) == SubsetCode(b, a)
DisjointCode(a, b) == IF Len(a) <= Len(b) THEN \A i \in 1..Len(a) : ~Contains(b, a[i].k)
                      ELSE \A j \in 1..Len(b) : ~Contains(a, b[j].k)

LEMMA ContainsRef == ASSUME NEW b, NEW x PROVE Contains(b, x) <=> x \in KRange(b)
  BY DEF Contains, KRange

LEMMA KRangeCard == ASSUME NEW s \in Seq(Pair), Unique(s)
                    PROVE  IsFiniteSet(KRange(s)) /\ Cardinality(KRange(s)) = Len(s)
  <1> DEFINE n == Len(s)
             f == [j \in 1..n |-> s[j].k]
  <1>0. n \in Nat OBVIOUS
  <1>1. f \in [1..n -> KRange(s)] BY DEF KRange
  <1>2. IsInjective(f)
    <2> SUFFICES ASSUME NEW x \in 1..n, NEW y \in 1..n, f[x] = f[y] PROVE x = y BY DEF IsInjective
    <2>. QED BY DEF Unique
  <1>3. \A t \in KRange(s) : \E j \in 1..n : f[j] = t BY DEF KRange
  <1>4. f \in Bijection(1..n, KRange(s)) BY <1>1, <1>2, <1>3 DEF Bijection, Injection, Surjection
  <1>5. ExistsBijection(1..n, KRange(s)) BY <1>4 DEF ExistsBijection
  <1>6. IsFiniteSet(1..n) /\ Cardinality(1..n) = n BY <1>0, FS_Interval
  <1>7. IsFiniteSet(KRange(s)) /\ Cardinality(KRange(s)) = Cardinality(1..n) BY <1>5, <1>6, FS_Bijection
  <1>. QED BY <1>6, <1>7

\* is_subset tells the mathematical truth - the length shortcut is sound because an inclusion
\* between sets cannot go from a larger set into a smaller one
THEOREM SubsetRef == ASSUME NEW a \in Seq(Pair), NEW b \in Seq(Pair), Unique(a), Unique(b)
                     PROVE  SubsetCode(a, b) <=> KRange(a) \subseteq KRange(b)
  <1>ca. IsFiniteSet(KRange(a)) /\ Cardinality(KRange(a)) = Len(a) BY KRangeCard
  <1>cb. IsFiniteSet(KRange(b)) /\ Cardinality(KRange(b)) = Len(b) BY KRangeCard
  <1>l. Len(a) \in Nat /\ Len(b) \in Nat OBVIOUS
  <1>1. ASSUME SubsetCode(a, b) PROVE KRange(a) \subseteq KRange(b)
    <2>1. \A i \in 1..Len(a) : Contains(b, a[i].k) BY <1>1 DEF SubsetCode
    <2>. QED BY <2>1, ContainsRef DEF KRange
  <1>2. ASSUME KRange(a) \subseteq KRange(b) PROVE SubsetCode(a, b)
    <2>1. KRange(a) \in SUBSET KRange(b) BY <1>2
    <2>2. Cardinality(KRange(a)) <= Cardinality(KRange(b)) BY <2>1, <1>cb, FS_Subset
    <2>3. Len(a) <= Len(b) BY <2>2, <1>ca, <1>cb
    <2>4. \A i \in 1..Len(a) : Contains(b, a[i].k)
      <3> SUFFICES ASSUME NEW i \in 1..Len(a) PROVE Contains(b, a[i].k) OBVIOUS
      <3>1. a[i].k \in KRange(a) BY DEF KRange
      <3>. QED BY <3>1, <1>2, ContainsRef
    <2>. QED BY <2>3, <2>4 DEF SubsetCode
  <1>. QED BY <1>1, <1>2

COROLLARY SupersetRef == ASSUME NEW a \in Seq(Pair), NEW b \in Seq(Pair), Unique(a), Unique(b)
                         PROVE  SupersetCode(a, b) <=> KRange(b) \subseteq KRange(a)
  BY SubsetRef DEF SupersetCode

\* is_disjoint scans the shorter operand: either way it tells whether the two share an element
THEOREM DisjointRef == ASSUME NEW a \in Seq(Pair), NEW b \in Seq(Pair)
                       PROVE  DisjointCode(a, b) <=> KRange(a) \cap KRange(b) = {}
  <1>l. Len(a) \in Nat /\ Len(b) \in Nat OBVIOUS
  <1>1. CASE Len(a) <= Len(b)
    <2>1. DisjointCode(a, b) <=> \A i \in 1..Len(a) : ~Contains(b, a[i].k) BY <1>1 DEF DisjointCode
    <2>2. (\A i \in 1..Len(a) : ~Contains(b, a[i].k)) <=> KRange(a) \cap KRange(b) = {}
      BY ContainsRef DEF KRange
    <2>. QED BY <2>1, <2>2
  <1>2. CASE ~(Len(a) <= Len(b))
    <2>1. DisjointCode(a, b) <=> \A j \in 1..Len(b) : ~Contains(a, b[j].k) BY <1>2 DEF DisjointCode
    <2>2. (\A j \in 1..Len(b) : ~Contains(a, b[j].k)) <=> KRange(a) \cap KRange(b) = {}
      BY ContainsRef DEF KRange
    <2>. QED BY <2>1, <2>2
  <1>. QED BY <1>1, <1>2
=============================================================================
