----------------------------- MODULE MapProofAdv -----------------------------
(***************************************************************************)
(* TLAPS, unbounded capacity: the memory-safety core of C17.  When the      *)
(* user's Eq / Borrow implementations LIE, a scan may "find" any slot of    *)
(* the live prefix or none at all, whatever the keys are.  Modelled here as *)
(* pure nondeterminism: every mutating step takes ANY decision a lying      *)
(* comparison could cause.  Keys may then repeat (the container may give    *)
(* wrong answers), but                                                      *)
(*   - every slot index the code touches lies in 1..len, and                *)
(*   - len never exceeds the capacity                                       *)
(* (AdvInv is inductive; Touched records the indices of the last step).     *)
(* The only index that is COMPUTED rather than found - the append position  *)
(* len + 1 - is guarded by the capacity test, which does not depend on any  *)
(* comparison.                                                              *)
(***************************************************************************)
EXTENDS Integers, Sequences, TLAPS

CONSTANTS Cap, Keys
ASSUME CapNat == Cap \in Nat

VARIABLES slots, touched      \* touched: the slot indices (of the pre-state, or the appended slot) the last step used

TypeOK == slots \in Seq(Keys)
AdvInv == TypeOK /\ Len(slots) <= Cap

Init == slots = <<>> /\ touched = {}

\* insert_ii with a lying scan: "found at i" for ANY live i, or "not found"
AdvInsert(k) ==
  /\ k \in Keys
  /\ \/ \E i \in 1..Len(slots) :                       \* overwrite in place (the key object may be swapped too)
           /\ slots' = [j \in 1..Len(slots) |-> IF j = i THEN k ELSE slots[j]]
           /\ touched' = {i}
     \/ /\ Len(slots) < Cap                            \* "not found", room: append
        /\ slots' = Append(slots, k)
        /\ touched' = {Len(slots) + 1}
     \/ /\ ~(Len(slots) < Cap)                         \* "not found", full: panic, nothing written
        /\ UNCHANGED slots /\ touched' = {}

\* remove / retain / entry removal with a lying scan: ANY live slot, or none
AdvRemove ==
  \/ \E i \in 1..Len(slots) :
        /\ slots' = [j \in 1..(Len(slots) - 1) |-> IF j = i THEN slots[Len(slots)] ELSE slots[j]]
        /\ touched' = {i, Len(slots)}
  \/ UNCHANGED slots /\ touched' = {}

\* lookups / get_mut: a reference to ANY live slot, or None
AdvLookup == UNCHANGED slots /\ (touched' = {} \/ \E i \in 1..Len(slots) : touched' = {i})

Next == (\E k \in Keys : AdvInsert(k)) \/ AdvRemove \/ AdvLookup

\* every index used by a step is a live slot of the pre-state, or the freshly appended slot - never beyond the capacity
StepSafe == \A x \in touched' : x \in 1..Cap /\ (x \in 1..Len(slots) \/ (x = Len(slots) + 1 /\ Len(slots) < Cap))

THEOREM InitInv == Init => AdvInv
  BY CapNat DEF Init, AdvInv, TypeOK

THEOREM NextInv == ASSUME AdvInv, Next PROVE AdvInv' /\ StepSafe
  <1>0. slots \in Seq(Keys) /\ Len(slots) \in Nat /\ Len(slots) <= Cap BY DEF AdvInv, TypeOK
  <1>1. ASSUME NEW k \in Keys, AdvInsert(k) PROVE AdvInv' /\ StepSafe
    <2>1. ASSUME NEW i \in 1..Len(slots),
                 slots' = [j \in 1..Len(slots) |-> IF j = i THEN k ELSE slots[j]], touched' = {i}
          PROVE  AdvInv' /\ StepSafe
      <3>1. slots' \in Seq(Keys) /\ Len(slots') = Len(slots) BY <2>1, <1>0
      <3>. QED BY <3>1, <2>1, <1>0, CapNat DEF AdvInv, TypeOK, StepSafe
    <2>2. ASSUME Len(slots) < Cap, slots' = Append(slots, k), touched' = {Len(slots) + 1}
          PROVE  AdvInv' /\ StepSafe
      <3>1. slots' \in Seq(Keys) /\ Len(slots') = Len(slots) + 1 BY <2>2, <1>0
      <3>. QED BY <3>1, <2>2, <1>0, CapNat DEF AdvInv, TypeOK, StepSafe
    <2>3. ASSUME UNCHANGED slots, touched' = {} PROVE AdvInv' /\ StepSafe
      BY <2>3, <1>0 DEF AdvInv, TypeOK, StepSafe
    <2>. QED BY <1>1, <2>1, <2>2, <2>3 DEF AdvInsert
  <1>2. ASSUME AdvRemove PROVE AdvInv' /\ StepSafe
    <2>1. ASSUME NEW i \in 1..Len(slots),
                 slots' = [j \in 1..(Len(slots) - 1) |-> IF j = i THEN slots[Len(slots)] ELSE slots[j]],
                 touched' = {i, Len(slots)}
          PROVE  AdvInv' /\ StepSafe
      <3>1. slots' \in Seq(Keys) /\ Len(slots') = Len(slots) - 1 BY <2>1, <1>0
      <3>2. Len(slots) \in 1..Len(slots) BY <1>0
      <3>. QED BY <3>1, <3>2, <2>1, <1>0, CapNat DEF AdvInv, TypeOK, StepSafe
    <2>2. ASSUME UNCHANGED slots, touched' = {} PROVE AdvInv' /\ StepSafe
      BY <2>2, <1>0 DEF AdvInv, TypeOK, StepSafe
    <2>. QED BY <1>2, <2>1, <2>2 DEF AdvRemove
  <1>3. ASSUME AdvLookup PROVE AdvInv' /\ StepSafe
    BY <1>3, <1>0, CapNat DEF AdvLookup, AdvInv, TypeOK, StepSafe
  <1>. QED BY <1>1, <1>2, <1>3 DEF Next

THEOREM Safety == Init /\ [][Next]_<<slots, touched>> => []AdvInv
  <1>1. AdvInv /\ [Next]_<<slots, touched>> => AdvInv'
    <2> SUFFICES ASSUME AdvInv, [Next]_<<slots, touched>> PROVE AdvInv' OBVIOUS
    <2>1. CASE Next BY <2>1, NextInv
    <2>2. CASE UNCHANGED <<slots, touched>> BY <2>2 DEF AdvInv, TypeOK
    <2>. QED BY <2>1, <2>2
  <1>. QED BY InitInv, <1>1, PTL
=============================================================================
