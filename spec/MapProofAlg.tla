----------------------------- MODULE MapProofAlg -----------------------------
(***************************************************************************)
(* TLAPS, unbounded sizes: the lazy set adaptors of micromap (C08).         *)
(* Every adaptor is a chain of FILTERED SLOT ITERATORS (set/difference.rs,  *)
(* intersection.rs, union.rs, symmetric_difference.rs):                     *)
(*   a.difference(b)            = a.iter().filter(|x| !b.contains(x))        *)
(*   a.intersection(b)          = a.iter().filter(|x|  b.contains(x))        *)
(*   a.union(b)                 = b.iter().chain(a.difference(b))            *)
(*   a.symmetric_difference(b)  = a.difference(b).chain(b.difference(a))     *)
(* One generic loop covers them all: the cursor `i` walks the slot sequence *)
(* A and appends to `out` (the items yielded so far, starting from `Base`:  *)
(* what an earlier link of the chain has yielded) every element that lies   *)
(* in the set W.  FilterInv is the loop invariant; FilterDone says that at  *)
(* the end `out` lists EXACTLY  Range(Base) \cup (Range(A) \cap W), without *)
(* repeats.  The four adaptors are the instances listed at the end.         *)
(***************************************************************************)
EXTENDS Integers, Sequences, TLAPS

CONSTANTS Keys, A, Base, W
Range(s) == {s[j] : j \in 1..Len(s)}
NoRepeat(s) == \A x, y \in 1..Len(s) : s[x] = s[y] => x = y

ASSUME Assumptions ==
  /\ A \in Seq(Keys) /\ NoRepeat(A)                  \* a set's slots hold pairwise different elements
  /\ Base \in Seq(Keys) /\ NoRepeat(Base)
  /\ Range(Base) \cap (Range(A) \cap W) = {}         \* the earlier link yields nothing this one will yield

VARIABLES i, out

Init == i = 1 /\ out = Base
Step ==
  /\ i \in 1..Len(A)
  /\ i' = i + 1
  /\ out' = IF A[i] \in W THEN Append(out, A[i]) ELSE out
Next == Step

Seen == {A[j] : j \in 1..(i - 1)}
FilterInv ==
  /\ i \in 1..(Len(A) + 1)
  /\ out \in Seq(Keys)
  /\ Range(out) = Range(Base) \cup (Seen \cap W)
  /\ NoRepeat(out)

THEOREM InitInv == Init => FilterInv
  <1> SUFFICES ASSUME Init PROVE FilterInv OBVIOUS
  <1>0. A \in Seq(Keys) /\ Base \in Seq(Keys) /\ NoRepeat(Base) BY Assumptions
  <1>1. i = 1 /\ out = Base BY DEF Init
  <1>2. Seen = {} BY <1>1 DEF Seen
  <1>3. i \in 1..(Len(A) + 1) BY <1>0, <1>1
  <1>. QED BY <1>0, <1>1, <1>2, <1>3 DEF FilterInv

THEOREM StepInv == ASSUME FilterInv, Step PROVE FilterInv'
  <1>0. A \in Seq(Keys) /\ NoRepeat(A) /\ Len(A) \in Nat BY Assumptions
  <1>1. i \in 1..Len(A) /\ i' = i + 1 /\ out \in Seq(Keys) /\ NoRepeat(out) BY DEF Step, FilterInv
  <1>2. Range(out) = Range(Base) \cup (Seen \cap W) BY DEF FilterInv
  <1>3. A[i] \in Keys BY <1>0, <1>1
  <1>4. Seen' = Seen \cup {A[i]}
    <2>1. Seen' = {A[j] : j \in 1..i} BY <1>1, <1>0 DEF Seen
    <2>2. ASSUME NEW x \in Seen' PROVE x \in Seen \cup {A[i]}
      <3>1. PICK j \in 1..i : x = A[j] BY <2>1
      <3>2. CASE j = i BY <3>1, <3>2
      <3>3. CASE j \in 1..(i - 1) BY <3>1, <3>3 DEF Seen
      <3>. QED BY <3>2, <3>3, <1>1
    <2>3. ASSUME NEW x \in Seen \cup {A[i]} PROVE x \in Seen'
      <3>1. CASE x = A[i] BY <3>1, <2>1, <1>1
      <3>2. CASE x \in Seen
        <4>1. PICK j \in 1..(i - 1) : x = A[j] BY <3>2 DEF Seen
        <4>2. j \in 1..i BY <1>1
        <4>. QED BY <4>1, <4>2, <2>1
      <3>. QED BY <3>1, <3>2
    <2>. QED BY <2>2, <2>3
  <1>5. A[i] \notin Seen
    <2> SUFFICES ASSUME A[i] \in Seen PROVE FALSE OBVIOUS
    <2>1. PICK j \in 1..(i - 1) : A[i] = A[j] BY DEF Seen
    <2>2. j \in 1..Len(A) /\ j # i BY <1>1, <1>0
    <2>. QED BY <2>1, <2>2, <1>0, <1>1 DEF NoRepeat
  <1>6. i' \in 1..(Len(A) + 1) BY <1>1, <1>0
  <1>7. CASE A[i] \notin W
    <2>1. out' = out BY <1>7 DEF Step
    <2>2. Seen' \cap W = Seen \cap W BY <1>4, <1>7
    <2>. QED BY <2>1, <2>2, <1>1, <1>2, <1>6 DEF FilterInv, Range, NoRepeat
  <1>8. CASE A[i] \in W
    <2>1. out' = Append(out, A[i]) BY <1>8 DEF Step
    <2>2. out' \in Seq(Keys) /\ Len(out') = Len(out) + 1 BY <2>1, <1>1, <1>3
    <2>3. \A j \in 1..Len(out) : out'[j] = out[j] BY <2>1, <1>1
    <2>4. out'[Len(out) + 1] = A[i] BY <2>1, <1>1
    <2>l. Len(out) \in Nat BY <1>1
    <2>5. Range(out') = Range(out) \cup {A[i]}
      <3>1. Range(out') = {out'[j] : j \in 1..(Len(out) + 1)} BY <2>2 DEF Range
      <3>2. ASSUME NEW x \in Range(out') PROVE x \in Range(out) \cup {A[i]}
        <4>1. PICK j \in 1..(Len(out) + 1) : x = out'[j] BY <3>1
        <4>2. CASE j = Len(out) + 1 BY <4>1, <4>2, <2>4
        <4>3. CASE j \in 1..Len(out) BY <4>1, <4>3, <2>3 DEF Range
        <4>. QED BY <4>2, <4>3, <2>l
      <3>3. ASSUME NEW x \in Range(out) \cup {A[i]} PROVE x \in Range(out')
        <4>1. CASE x = A[i] BY <4>1, <2>4, <3>1, <2>l
        <4>2. CASE x \in Range(out)
          <5>1. PICK j \in 1..Len(out) : x = out[j] BY <4>2 DEF Range
          <5>2. j \in 1..(Len(out) + 1) BY <2>l
          <5>. QED BY <5>1, <5>2, <2>3, <3>1
        <4>. QED BY <4>1, <4>2
      <3>. QED BY <3>2, <3>3
    <2>6. Seen' \cap W = (Seen \cap W) \cup {A[i]} BY <1>4, <1>8
    <2>7. Range(out') = Range(Base) \cup (Seen' \cap W) BY <2>5, <2>6, <1>2
    \* the new item is in nothing yielded so far: not in Base (by assumption), not among the earlier slots of A
    <2>8. A[i] \notin Range(out)
      <3>1. A[i] \in Range(A) BY <1>1 DEF Range
      <3>2. A[i] \notin Range(Base) BY <3>1, <1>8, Assumptions
      <3>. QED BY <3>2, <1>5, <1>2
    <2>9. NoRepeat(out')
      <3> SUFFICES ASSUME NEW x \in 1..(Len(out) + 1), NEW y \in 1..(Len(out) + 1), out'[x] = out'[y] PROVE x = y
        BY <2>2 DEF NoRepeat
      <3>1. CASE x \in 1..Len(out) /\ y \in 1..Len(out) BY <3>1, <2>3, <1>1 DEF NoRepeat
      <3>2. CASE x = Len(out) + 1 /\ y = Len(out) + 1 BY <3>2
      <3>3. CASE x = Len(out) + 1 /\ y \in 1..Len(out)
        <4>1. out[y] = A[i] BY <3>3, <2>3, <2>4
        <4>. QED BY <4>1, <3>3, <2>8 DEF Range
      <3>4. CASE y = Len(out) + 1 /\ x \in 1..Len(out)
        <4>1. out[x] = A[i] BY <3>4, <2>3, <2>4
        <4>. QED BY <4>1, <3>4, <2>8 DEF Range
      <3>. QED BY <3>1, <3>2, <3>3, <3>4, <2>l
    <2>. QED BY <2>2, <2>7, <2>9, <1>6 DEF FilterInv
  <1>. QED BY <1>7, <1>8

THEOREM Safety == Init /\ [][Next]_<<i, out>> => []FilterInv
  <1>1. FilterInv /\ [Next]_<<i, out>> => FilterInv'
    <2> SUFFICES ASSUME FilterInv, [Next]_<<i, out>> PROVE FilterInv' OBVIOUS
    <2>1. CASE Step BY <2>1, StepInv
    <2>2. CASE UNCHANGED <<i, out>> BY <2>2 DEF FilterInv, Seen, Range, NoRepeat
    <2>. QED BY <2>1, <2>2 DEF Next
  <1>. QED BY InitInv, <1>1, PTL

\* when the cursor has passed the last slot, exactly the mathematical result has been yielded, once each
THEOREM FilterDone == ASSUME FilterInv, i = Len(A) + 1
                      PROVE  Range(out) = Range(Base) \cup (Range(A) \cap W) /\ NoRepeat(out)
  <1>0. Len(A) \in Nat BY Assumptions
  <1>1. Seen = Range(A) BY <1>0 DEF Seen, Range
  <1>. QED BY <1>1 DEF FilterInv

\* ------------------------------------------------------------ instances --
CONSTANT B        \* the slot sequence of the other set
ASSUME BAssumption == B \in Seq(Keys)

LEMMA RangeA == Range(A) \subseteq Keys
  <1>0. A \in Seq(Keys) BY Assumptions
  <1>. QED BY <1>0 DEF Range
LEMMA RangeEmpty == Range(<<>>) = {}
  BY DEF Range

COROLLARY Difference == ASSUME Base = <<>>, W = Keys \ Range(B), FilterInv, i = Len(A) + 1
                        PROVE  Range(out) = Range(A) \ Range(B) /\ NoRepeat(out)
  <1>1. Range(out) = Range(Base) \cup (Range(A) \cap W) /\ NoRepeat(out) BY FilterDone
  <1>. QED BY <1>1, RangeA, RangeEmpty

COROLLARY Intersection == ASSUME Base = <<>>, W = Range(B), FilterInv, i = Len(A) + 1
                          PROVE  Range(out) = Range(A) \cap Range(B) /\ NoRepeat(out)
  <1>1. Range(out) = Range(Base) \cup (Range(A) \cap W) /\ NoRepeat(out) BY FilterDone
  <1>. QED BY <1>1, RangeEmpty

COROLLARY Union == ASSUME Base = B, W = Keys \ Range(B), FilterInv, i = Len(A) + 1
                   PROVE  Range(out) = Range(A) \cup Range(B) /\ NoRepeat(out)
  <1>1. Range(out) = Range(Base) \cup (Range(A) \cap W) /\ NoRepeat(out) BY FilterDone
  <1>. QED BY <1>1, RangeA

\* the UNFILTERED scan (iter / keys / values / into_iter / drain: C09, C10): every entry comes out
\* exactly once, and after m steps exactly m items have been yielded - so the remaining length
\* Len(A) - m that len() / size_hint() report is exact at every stage
COROLLARY FullScan == ASSUME Base = <<>>, W = Keys, FilterInv, i = Len(A) + 1
                      PROVE  Range(out) = Range(A) /\ NoRepeat(out)
  <1>1. Range(out) = Range(Base) \cup (Range(A) \cap W) /\ NoRepeat(out) BY FilterDone
  <1>. QED BY <1>1, RangeA, RangeEmpty

LenInv == Len(out) = i - 1
THEOREM FullScanLen == ASSUME Base = <<>>, W = Keys
                       PROVE  /\ Init => LenInv
                              /\ FilterInv /\ LenInv /\ Step => LenInv'
  <1>1. ASSUME Init PROVE LenInv BY <1>1 DEF Init, LenInv
  <1>2. ASSUME FilterInv, LenInv, Step PROVE LenInv'
    <2>0. A \in Seq(Keys) BY Assumptions
    <2>1. i \in 1..Len(A) /\ i' = i + 1 /\ out \in Seq(Keys) BY <1>2 DEF Step, FilterInv
    <2>2. A[i] \in W BY <2>0, <2>1
    <2>3. out' = Append(out, A[i]) BY <1>2, <2>2 DEF Step
    <2>4. Len(out') = Len(out) + 1 BY <2>3, <2>1
    <2>. QED BY <2>4, <2>1, <1>2 DEF LenInv
  <1>. QED BY <1>1, <1>2

(***************************************************************************)
(* Instances (B = the slot sequence of the other set, pairwise different):  *)
(*   difference            Base = <<>>,  W = Keys \ Range(B)                 *)
(*       => yields Range(A) \ Range(B)                                      *)
(*   intersection          Base = <<>>,  W = Range(B)                        *)
(*       => yields Range(A) \cap Range(B)                                    *)
(*   union                 Base = B,     W = Keys \ Range(B)                 *)
(*       => yields Range(B) \cup (Range(A) \ Range(B)) = Range(A) \cup Range(B) *)
(*   symmetric_difference  second link: the roles of A and B swapped,       *)
(*                         Base = what a.difference(b) yielded (its range   *)
(*                         Range(A) \ Range(B) is disjoint from             *)
(*                         Range(B) \ Range(A)),  W = Keys \ Range(A)        *)
(*       => yields (Range(A) \ Range(B)) \cup (Range(B) \ Range(A))          *)
(* In every instance the side condition of Assumptions holds by elementary  *)
(* set algebra, and NoRepeat(out) is "no element repeated".                 *)
(***************************************************************************)
=============================================================================
