---------------------------- MODULE MapProofClone ----------------------------
(***************************************************************************)
(* TLAPS, unbounded sizes: Clone (C15).  clone.rs walks the live prefix     *)
(* front to back, clones the key and the value of each pair ONCE, writes    *)
(* the copy into the same slot of the new container and then counts it.     *)
(* CInv is the loop invariant; at the end the copy holds the same pairs in  *)
(* the same slots (hence it is equal to the original - MapProofEq - and     *)
(* has pairwise different keys if the original has), and every stored key   *)
(* and value has been cloned exactly once: `kc[j]` / `vc[j]` count the      *)
(* clone calls on the key / value of slot j.  The original is never         *)
(* written (S is a constant here: &self).                                   *)
(***************************************************************************)
EXTENDS Integers, Sequences, TLAPS

CONSTANTS Pair, S
ASSUME SType == S \in Seq(Pair)

VARIABLES i, out, kc, vc

Init == i = 1 /\ out = <<>> /\ kc = [j \in 1..Len(S) |-> 0] /\ vc = [j \in 1..Len(S) |-> 0]
Step ==
  /\ i \in 1..Len(S)
  /\ kc' = [kc EXCEPT ![i] = @ + 1]          \* K::clone on the stored key
  /\ vc' = [vc EXCEPT ![i] = @ + 1]          \* V::clone on the stored value
  /\ out' = Append(out, S[i])                \* written into slot i of the copy, then len = i
  /\ i' = i + 1

CInv ==
  /\ i \in 1..(Len(S) + 1)
  /\ out \in Seq(Pair) /\ Len(out) = i - 1
  /\ \A j \in 1..(i - 1) : out[j] = S[j]
  /\ kc \in [1..Len(S) -> Nat] /\ vc \in [1..Len(S) -> Nat]
  /\ \A j \in 1..Len(S) : kc[j] = (IF j < i THEN 1 ELSE 0) /\ vc[j] = (IF j < i THEN 1 ELSE 0)

THEOREM InitInv == Init => CInv
  <1> SUFFICES ASSUME Init PROVE CInv OBVIOUS
  <1>0. Len(S) \in Nat BY SType
  <1>1. i = 1 /\ out = <<>> /\ kc = [j \in 1..Len(S) |-> 0] /\ vc = [j \in 1..Len(S) |-> 0] BY DEF Init
  <1>2. out \in Seq(Pair) /\ Len(out) = 0 BY <1>1
  <1>. QED BY <1>0, <1>1, <1>2 DEF CInv

THEOREM StepInv == ASSUME CInv, Step PROVE CInv'
  <1>0. S \in Seq(Pair) /\ Len(S) \in Nat BY SType
  <1>1. i \in 1..Len(S) /\ i' = i + 1 /\ out \in Seq(Pair) /\ Len(out) = i - 1 BY DEF Step, CInv
  <1>2. S[i] \in Pair BY <1>0, <1>1
  <1>3. out' = Append(out, S[i]) BY DEF Step
  <1>4. out' \in Seq(Pair) /\ Len(out') = i BY <1>1, <1>2, <1>3
  <1>5. \A j \in 1..i : out'[j] = S[j]
    <2> SUFFICES ASSUME NEW j \in 1..i PROVE out'[j] = S[j] OBVIOUS
    <2>1. CASE j = i BY <2>1, <1>1, <1>3
    <2>2. CASE j \in 1..(i - 1)
      <3>1. out'[j] = out[j] BY <2>2, <1>1, <1>3
      <3>. QED BY <3>1, <2>2 DEF CInv
    <2>. QED BY <2>1, <2>2, <1>1
  <1>6. kc \in [1..Len(S) -> Nat] /\ vc \in [1..Len(S) -> Nat] BY DEF CInv
  <1>7. kc' = [kc EXCEPT ![i] = @ + 1] /\ vc' = [vc EXCEPT ![i] = @ + 1] BY DEF Step
  <1>8. kc' \in [1..Len(S) -> Nat] /\ vc' \in [1..Len(S) -> Nat] BY <1>6, <1>7, <1>1
  <1>9. \A j \in 1..Len(S) : kc'[j] = (IF j < i + 1 THEN 1 ELSE 0) /\ vc'[j] = (IF j < i + 1 THEN 1 ELSE 0)
    <2> SUFFICES ASSUME NEW j \in 1..Len(S) PROVE kc'[j] = (IF j < i + 1 THEN 1 ELSE 0) /\ vc'[j] = (IF j < i + 1 THEN 1 ELSE 0) OBVIOUS
    <2>0. kc[j] = (IF j < i THEN 1 ELSE 0) /\ vc[j] = (IF j < i THEN 1 ELSE 0) BY DEF CInv
    <2>1. CASE j = i
      <3>1. kc'[j] = kc[i] + 1 /\ vc'[j] = vc[i] + 1 BY <2>1, <1>6, <1>7, <1>1
      <3>. QED BY <3>1, <2>0, <2>1, <1>1
    <2>2. CASE j # i
      <3>1. kc'[j] = kc[j] /\ vc'[j] = vc[j] BY <2>2, <1>6, <1>7
      <3>. QED BY <3>1, <2>0, <2>2, <1>1
    <2>. QED BY <2>1, <2>2
  <1>10. i' \in 1..(Len(S) + 1) BY <1>1, <1>0
  <1>. QED BY <1>1, <1>4, <1>5, <1>8, <1>9, <1>10 DEF CInv

\* the finished copy: the same pairs in the same slots; every key and every value cloned exactly once
THEOREM CloneDone == ASSUME CInv, i = Len(S) + 1
                     PROVE  /\ out = S
                            /\ \A j \in 1..Len(S) : kc[j] = 1 /\ vc[j] = 1
  <1>0. S \in Seq(Pair) /\ Len(S) \in Nat BY SType
  <1>1. out \in Seq(Pair) /\ Len(out) = Len(S) /\ \A j \in 1..Len(S) : out[j] = S[j] BY <1>0 DEF CInv
  <1>2. out = S BY <1>0, <1>1
  <1>3. \A j \in 1..Len(S) : kc[j] = 1 /\ vc[j] = 1
    <2> SUFFICES ASSUME NEW j \in 1..Len(S) PROVE kc[j] = 1 /\ vc[j] = 1 OBVIOUS
    <2>1. j < i BY <1>0
    <2>. QED BY <2>1 DEF CInv
  <1>. QED BY <1>2, <1>3
=============================================================================
