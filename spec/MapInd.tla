------------------------------- MODULE MapInd -------------------------------
(***************************************************************************)
(* Inductive core of C05 / C03 for an ARBITRARY capacity (bounded only by   *)
(* the generator width): the representation invariant                       *)
(*     Len(slots) <= Cap  /\  keys pairwise different                        *)
(* is preserved by the slot-level steps of micromap - find-or-append,        *)
(* swap-remove at any index, pop from the back (IntoIter::next), clear /     *)
(* drain.  Checked with Apalache as  Init => Inv  and  Inv /\ Next => Inv'.  *)
(***************************************************************************)
EXTENDS Integers, Sequences, Apalache

CONSTANTS
  \* @type: Int;
  Cap

VARIABLES
  \* @type: Seq(Int);
  slots

\* @type: (Seq(Int), Int) => Int;
Find(s, k) ==
  IF \E i \in DOMAIN s : s[i] = k
  THEN CHOOSE i \in DOMAIN s : s[i] = k /\ \A j \in DOMAIN s : j < i => s[j] # k
  ELSE 0

Inv ==
  /\ Len(slots) <= Cap
  /\ \A i, j \in DOMAIN slots : slots[i] = slots[j] => i = j

ConstInit == Cap \in 0..32

Init == slots = <<>>

\* an arbitrary state satisfying the invariant (for the inductive step)
IndInit == slots = Gen(32) /\ Inv

\* map.rs insert_ii: replace in place when found, else append when there is room, else panic (no change)
Insert(k) ==
  IF Find(slots, k) # 0 THEN UNCHANGED slots
  ELSE IF Len(slots) < Cap THEN slots' = Append(slots, k)
  ELSE UNCHANGED slots

\* map.rs remove_index_read: the last live slot moves into the hole
SwapRemove(i) ==
  /\ i \in DOMAIN slots
  /\ LET n == Len(slots) IN
     slots' = SubSeq([slots EXCEPT ![i] = slots[n]], 1, n - 1)

PopBack == Len(slots) > 0 /\ slots' = SubSeq(slots, 1, Len(slots) - 1)
Clear == slots' = <<>>

Next ==
  \/ \E k \in 0..40 : Insert(k)
  \/ \E i \in 1..32 : SwapRemove(i)
  \/ PopBack
  \/ Clear
=============================================================================
