------------------------------ MODULE PairSpec ------------------------------
(***************************************************************************)
(* Two containers A (capacity CapA) and B (capacity CapB) and the binary    *)
(* operations between them: equality (eq.rs, set/eq.rs), the lazy set       *)
(* algebra adaptors (set/union.rs, intersection.rs, difference.rs,          *)
(* symmetric_difference.rs), the predicates (set/methods.rs) and the `-`    *)
(* operator (set/sub.rs).  Every pair of well-formed slot layouts over the  *)
(* class universe is a reachable state; the operations are read-only, so    *)
(* the state graph is the pair space itself.                                *)
(*                                                                         *)
(* Object tags: A's slot i holds key object i, B's slot i key object 50+i,  *)
(* a clone of A's slot i made by `-` is 20+i.                               *)
(***************************************************************************)
EXTENDS MapOps, TLC, Json

CONSTANTS CapA, CapB, Classes, VerA, VerB, Vals, Mode, Family, Emit

VARIABLES a, b
vars == <<a, b>>

EntriesA == [c : Classes, r : {VerA}, v : Vals]
EntriesB == [c : Classes, r : {VerB}, v : Vals]
TagA(s) == [i \in 1..Len(s) |-> [c |-> s[i].c, r |-> s[i].r, v |-> s[i].v, kt |-> i, vt |-> IF Mode = "set" THEN 0 ELSE i]]
TagB(s) == [i \in 1..Len(s) |-> [c |-> s[i].c, r |-> s[i].r, v |-> s[i].v, kt |-> 50 + i, vt |-> IF Mode = "set" THEN 0 ELSE 50 + i]]
Keys(s) == SeqMap(JEntK, s)
ClassesOf(s) == {s[i].c : i \in 1..Len(s)}

\* ------------------------------------------------- lazy adaptors, as coded --
\* index (in the left operand) of the j-th item a filter adaptor has yielded; 0 for j = 0
RECURSIVE NthHit(_, _, _, _)
NthHit(s, keepIdx, j, from) ==      \* position of the j-th kept index > from
  IF j = 0 THEN from
  ELSE LET nxt == CHOOSE i \in keepIdx : i > from /\ \A h \in keepIdx : h > from => i <= h
       IN NthHit(s, keepIdx, j - 1, nxt)

DiffIdx(x, y)  == {i \in 1..Len(x) : ~Contains(y, x[i].c)}
InterIdx(x, y) == {i \in 1..Len(x) : Contains(y, x[i].c)}

\* size_hint of x.difference(y) after it has yielded j items: the inner slice iterator
\* has been advanced to just behind the j-th hit (find() stops at a match)
DiffHintAfter(x, y, j) ==
  LET n == Cardinality(DiffIdx(x, y))
      pos == NthHit(x, DiffIdx(x, y), IF j <= n THEN j ELSE n, 0)
      ra == Len(x) - pos
  IN DiffHint(ra, Len(y))
InterHintAfter(x, y, j) ==
  LET n == Cardinality(InterIdx(x, y))
      pos == NthHit(x, InterIdx(x, y), IF j <= n THEN j ELSE n, 0)
      ra == Len(x) - pos
  IN InterHint(ra, Len(y))

\* core::iter::Chain: the first half is dropped once it has returned None, i.e. once
\* MORE items than it holds have been requested; until then both halves count
UnionHintAfter(x, y, j) ==           \* y.iter().chain(x.difference(y))
  IF j <= Len(y) THEN ChainHint(<<Len(y) - j, Len(y) - j>>, DiffHintAfter(x, y, 0))
  ELSE DiffHintAfter(x, y, j - Len(y))
SymHintAfter(x, y, j) ==             \* x.difference(y).chain(y.difference(x))
  LET n1 == Cardinality(DiffIdx(x, y)) IN
  IF j <= n1 THEN ChainHint(DiffHintAfter(x, y, j), DiffHintAfter(y, x, 0))
  ELSE DiffHintAfter(y, x, j - n1)

AlgSeq(kind, x, y) ==
  CASE kind = "union" -> UnionSeq(x, y)
    [] kind = "intersection" -> InterSeq(x, y)
    [] kind \in {"difference", "difference_ref"} -> DiffSeq(x, y)
    [] kind = "symmetric_difference" -> SymDiffSeq(x, y)
AlgHint(kind, x, y, j) ==
  CASE kind = "union" -> UnionHintAfter(x, y, j)
    [] kind = "intersection" -> InterHintAfter(x, y, j)
    [] kind \in {"difference", "difference_ref"} -> DiffHintAfter(x, y, j)
    [] kind = "symmetric_difference" -> SymHintAfter(x, y, j)

\* one episode: n items taken with next(), size_hint before every poll, the rest
\* taken with fold (and, by the harness, once more through a clone and through Debug)
OpAlgebra(x, y, kind, n) ==
  LET sq == AlgSeq(kind, x, y) IN
  [yield |-> Keys(Prefix(sq, n)), rest |-> Keys(Suffix(sq, n)),
   hints |-> [j \in 1..(n + 1) |-> AlgHint(kind, x, y, j - 1)]]

\* set/sub.rs: self.difference(rhs).cloned().collect() into a Set of the LEFT capacity
CloneTag(e) == [e EXCEPT !.kt = 20 + e.kt]
OpSub(x, y) == [ents |-> Keys(SeqMap(CloneTag, DiffSeq(x, y))), cloned |-> {e.kt : e \in SeqRange(DiffSeq(x, y))}]

OpPred(x, y, p) ==
  CASE p = "is_subset" -> IsSubset(x, y)
    [] p = "is_superset" -> IsSuperset(x, y)
    [] p = "is_disjoint" -> IsDisjoint(x, y)

\* `!=` is PartialEq::ne, whose default is the negation of eq (an override must agree with it)
OpEq(x, y) == [ab |-> EqMaps(x, y), ba |-> EqMaps(y, x), aa |-> EqMaps(x, x), bb |-> EqMaps(y, y),
               nab |-> ~EqMaps(x, y), nba |-> ~EqMaps(y, x)]

\* ---------------------------------------------------------- enumeration --
AlgKinds == {"union", "intersection", "difference", "symmetric_difference", "difference_ref"}
PairOps(x, y) ==
  (IF "eq" \in Family THEN {[name |-> "eq"]} ELSE {})
  \cup (IF "algebra" \in Family /\ Mode = "set"
        THEN {[name |-> "algebra", kind |-> k, n |-> n] : k \in AlgKinds, n \in 0..(Len(x) + Len(y))}
             \cup {[name |-> "pred", p |-> p] : p \in {"is_subset", "is_superset", "is_disjoint"}}
             \cup {[name |-> "sub"]}
        ELSE {})

ApplyPair(x, y, op) ==
  CASE op.name = "eq" -> OpEq(x, y)
    [] op.name = "algebra" -> OpAlgebra(x, y, op.kind, IF op.n <= Len(AlgSeq(op.kind, x, y)) THEN op.n ELSE Len(AlgSeq(op.kind, x, y)))
    [] op.name = "pred" -> [b |-> OpPred(x, y, op.p)]
    [] op.name = "sub" -> OpSub(x, y)

JS(e) == <<e.c, e.r, e.v>>
Init == a = <<>> /\ b = <<>>

Reach ==
  \/ \E c \in Classes, v \in Vals :
       /\ a' = Strip(OpInsert(Tag(a), CapA, [kt |-> 11, c |-> c, r |-> VerA], [vt |-> 11, v |-> v]).post)
       /\ UNCHANGED b
  \/ \E c \in Classes, v \in Vals :
       /\ b' = Strip(OpInsert(Tag(b), CapB, [kt |-> 11, c |-> c, r |-> VerB], [vt |-> 11, v |-> v]).post)
       /\ UNCHANGED a
  \/ \E c \in Classes : a' = Strip(OpRemove(Tag(a), c).post) /\ UNCHANGED b
  \/ \E c \in Classes : b' = Strip(OpRemove(Tag(b), c).post) /\ UNCHANGED a

Step ==
  \E op \in PairOps(TagA(a), TagB(b)) :
     /\ UNCHANGED vars
     /\ (Emit => PrintT(<<"TR", ToJson([na |-> CapA, nb |-> CapB, a |-> SeqMap(JS, a), b |-> SeqMap(JS, b),
                                         o |-> op, r |-> ApplyPair(TagA(a), TagB(b), op)])>>))

Next == Reach \/ Step
Spec == Init /\ [][Next]_vars

\* ----------------------------------------------------------- invariants --
TypeOK ==
  /\ Len(a) <= CapA /\ \A i \in 1..Len(a) : a[i] \in EntriesA
  /\ Len(b) <= CapB /\ \A i \in 1..Len(b) : b[i] \in EntriesB
Unique(s) == \A i, j \in 1..Len(s) : s[i].c = s[j].c => i = j
UniqueKeys == Unique(a) /\ Unique(b)

\* C14: equality is extensional, reflexive and symmetric whatever the orders / capacities
Ext(x, y) == {<<x[i].c, x[i].v>> : i \in 1..Len(x)} = {<<y[i].c, y[i].v>> : i \in 1..Len(y)}
EqIsExtensional ==
  LET r == OpEq(TagA(a), TagB(b)) IN
  /\ r.ab = Ext(a, b) /\ r.ba = Ext(a, b) /\ r.aa /\ r.bb
  /\ r.nab = ~Ext(a, b) /\ r.nba = ~Ext(a, b)

\* C08: each adaptor yields exactly the mathematical result, no element twice;
\* intersection and difference hand out the LEFT operand's objects; at every stage
\* of consumption size_hint brackets what is still to come; predicates are the truth
NoRepeatClasses(s) == \A i, j \in 1..Len(s) : s[i].c = s[j].c => i = j
MathSet(kind) ==
  CASE kind = "union" -> ClassesOf(a) \cup ClassesOf(b)
    [] kind = "intersection" -> ClassesOf(a) \cap ClassesOf(b)
    [] kind \in {"difference", "difference_ref"} -> ClassesOf(a) \ ClassesOf(b)
    [] kind = "symmetric_difference" -> (ClassesOf(a) \ ClassesOf(b)) \cup (ClassesOf(b) \ ClassesOf(a))
AlgebraIsMath ==
  Mode = "set" =>
  /\ \A k \in AlgKinds :
       LET sq == AlgSeq(k, TagA(a), TagB(b)) IN
       /\ NoRepeatClasses(sq)
       /\ ClassesOf(sq) = MathSet(k)
       /\ k \in {"intersection", "difference", "difference_ref"} => \A i \in 1..Len(sq) : sq[i].kt < 50
       /\ \A j \in 0..Len(sq) :
            LET h == AlgHint(k, TagA(a), TagB(b), j) IN h[1] <= Len(sq) - j /\ Len(sq) - j <= h[2]
  /\ OpPred(a, b, "is_subset") = (ClassesOf(a) \subseteq ClassesOf(b))
  /\ OpPred(a, b, "is_superset") = (ClassesOf(b) \subseteq ClassesOf(a))
  /\ OpPred(a, b, "is_disjoint") = (ClassesOf(a) \cap ClassesOf(b) = {})
  /\ LET s == OpSub(TagA(a), TagB(b)) IN
       /\ {s.ents[i][2] : i \in 1..Len(s.ents)} = ClassesOf(a) \ ClassesOf(b)
       /\ Len(s.ents) = Cardinality(ClassesOf(a) \ ClassesOf(b))
       /\ Len(s.ents) <= CapA
=============================================================================
