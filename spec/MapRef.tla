------------------------------- MODULE MapRef -------------------------------
(***************************************************************************)
(* One-step refinement of the ideal dictionary by the slot array, for an    *)
(* ARBITRARY capacity and ARBITRARY contents (bounded only by the generator *)
(* width), checked symbolically with Apalache:                              *)
(*                                                                         *)
(*   from ANY state that satisfies the representation invariant (len <= Cap,*)
(*   keys pairwise different) - not only the ones TLC reaches at capacities  *)
(*   0..4 - every slot-level step of micromap (lookup by linear scan,        *)
(*   find-or-append, swap-remove, pop from the back, clear, and every        *)
(*   iteration of retain's remove-while-scanning loop) changes the ABSTRACT  *)
(*   content {<<key, value>>} exactly the way the dictionary operation does, *)
(*   returns what the dictionary returns, and re-establishes the invariant.  *)
(*                                                                         *)
(* Together with  Init => IndInv  this is the induction behind C01 / C07 /   *)
(* C05 at capacities the explicit-state graphs do not reach.  The            *)
(* abstraction function is the one MapSpec.tla's RefinesDict uses (slot      *)
(* order forgotten).                                                         *)
(*   apalache-mc check --cinit=ConstInit --init=Init    --inv=IndInv  --length=0 *)
(*   apalache-mc check --cinit=ConstInit --init=IndInit --inv=IndInv  --length=1 *)
(*   apalache-mc check --cinit=ConstInit --init=IndInit --inv=Refines --length=1 *)
(***************************************************************************)
EXTENDS Integers, Sequences, Apalache

CONSTANTS
  \* @type: Int;
  Cap,
  \* the keys a retain predicate keeps (any set: chosen by the solver)
  \* @type: Set(Int);
  Keep

VARIABLES
  \* @type: Seq({k: Int, r: Int, v: Int});
  slots,
  \* the call made by the last step and what it returned
  \* @type: {op: Str, k: Int, r: Int, v: Int, found: Bool, ret: Int, retr: Int};
  last,
  \* retain in progress: the slot it looks at next (0 = no retain is running) ...
  \* @type: Int;
  ri,
  \* ... and the abstract content when it started
  \* @type: Set(<<Int, Int>>);
  d0

\* @type: (Seq({k: Int, r: Int, v: Int}), Int) => Int;
Find(s, k) ==
  IF \E i \in DOMAIN s : s[i].k = k
  THEN CHOOSE i \in DOMAIN s : s[i].k = k /\ \A j \in DOMAIN s : j < i => s[j].k # k
  ELSE 0

\* @type: Seq({k: Int, r: Int, v: Int}) => Set(<<Int, Int>>);
Abs(s) == {<<s[i].k, s[i].v>> : i \in DOMAIN s}
\* @type: Seq({k: Int, r: Int, v: Int}) => Set(Int);
Keys(s) == {s[i].k : i \in DOMAIN s}
\* which key OBJECT stands for a key (stored-key identity, C12)
\* @type: Seq({k: Int, r: Int, v: Int}) => Set(<<Int, Int>>);
Ids(s) == {<<s[i].k, s[i].r>> : i \in DOMAIN s}

Inv ==
  /\ Len(slots) <= Cap
  /\ \A i, j \in DOMAIN slots : slots[i].k = slots[j].k => i = j

\* the loop invariant of map.rs retain (`while i < len { if keep { i += 1 } else { swap-remove(i) } }`):
\* everything in front of the cursor is kept, nothing that must be kept has gone, nothing has appeared
RInv ==
  \/ ri = 0
  \/ /\ 1 <= ri /\ ri <= Len(slots) + 1
     /\ \A j \in DOMAIN slots : j < ri => slots[j].k \in Keep
     /\ Abs(slots) \subseteq d0
     /\ {p \in d0 : p[1] \in Keep} \subseteq Abs(slots)
IndInv == Inv /\ RInv

ConstInit == Cap \in 0..24 /\ Keep \in SUBSET (0..30)

NoCall == [op |-> "none", k |-> 0, r |-> 0, v |-> 0, found |-> FALSE, ret |-> 0, retr |-> 0]
Init == slots = <<>> /\ last = NoCall /\ ri = 0 /\ d0 = {}
\* an arbitrary state satisfying the invariant (for the inductive step)
IndInit == slots = Gen(24) /\ ri \in 0..25 /\ d0 = Gen(24) /\ IndInv /\ last = NoCall

\* ---------------------------------------------------------------- steps --
Idle == ri = 0 /\ UNCHANGED <<ri, d0>>       \* (&mut self: no other call runs during a retain)
Call(o) == [op |-> o, k |-> 0, r |-> 0, v |-> 0, found |-> FALSE, ret |-> 0, retr |-> 0]

\* map.rs get / contains_key / get_mut: linear scan of the live prefix
Get(k) ==
  LET i == Find(slots, k) IN
  /\ Idle /\ UNCHANGED slots
  /\ last' = [Call("get") EXCEPT !.k = k, !.found = i # 0, !.ret = IF i # 0 THEN slots[i].v ELSE 0, !.retr = IF i # 0 THEN slots[i].r ELSE 0]

\* map.rs insert_ii: overwrite the value in place when found, else append when there is room,
\* else panic (no change)
\* (upd: insert_key_value / Set::replace store the NEW key object; insert keeps the stored one - C12)
Insert(k, r, v, upd) ==
  LET i == Find(slots, k)
      c == [Call(IF upd THEN "insert_kv" ELSE "insert") EXCEPT !.k = k, !.r = r, !.v = v] IN
  /\ Idle
  /\ IF i # 0
     THEN /\ slots' = [slots EXCEPT ![i] = [k |-> k, r |-> IF upd THEN r ELSE slots[i].r, v |-> v]]
          /\ last' = [c EXCEPT !.found = TRUE, !.ret = slots[i].v, !.retr = slots[i].r]
     ELSE IF Len(slots) < Cap
          THEN /\ slots' = Append(slots, [k |-> k, r |-> r, v |-> v])
               /\ last' = c
          ELSE /\ UNCHANGED slots
               /\ last' = [c EXCEPT !.op = "insert_full"]

\* map.rs remove: scan, then remove_index_read - the last live slot moves into the hole
Remove(k) ==
  LET i == Find(slots, k)
      n == Len(slots) IN
  /\ Idle
  /\ IF i = 0 THEN UNCHANGED slots /\ last' = [Call("remove") EXCEPT !.k = k]
     ELSE /\ slots' = SubSeq([slots EXCEPT ![i] = slots[n]], 1, n - 1)
          /\ last' = [Call("remove") EXCEPT !.k = k, !.found = TRUE, !.ret = slots[i].v, !.retr = slots[i].r]

\* IntoIter::next / Drain: the last pair leaves
PopBack ==
  /\ Idle /\ Len(slots) > 0
  /\ slots' = SubSeq(slots, 1, Len(slots) - 1)
  /\ last' = [Call("pop") EXCEPT !.k = slots[Len(slots)].k, !.found = TRUE, !.ret = slots[Len(slots)].v, !.retr = slots[Len(slots)].r]

Clear == Idle /\ slots' = <<>> /\ last' = Call("clear")

\* map.rs retain, one loop iteration per step
RetainStart == ri = 0 /\ ri' = 1 /\ d0' = Abs(slots) /\ UNCHANGED slots /\ last' = Call("retain_start")
RetainStep ==
  /\ ri >= 1 /\ ri <= Len(slots) /\ UNCHANGED d0 /\ last' = Call("retain_step")
  /\ IF slots[ri].k \in Keep THEN ri' = ri + 1 /\ UNCHANGED slots
     ELSE LET n == Len(slots) IN ri' = ri /\ slots' = SubSeq([slots EXCEPT ![ri] = slots[n]], 1, n - 1)
RetainEnd == ri = Len(slots) + 1 /\ ri' = 0 /\ UNCHANGED <<slots, d0>> /\ last' = Call("retain_end")

Next ==
  \/ \E k \in 0..30 : Get(k)
  \/ \E k \in 0..30, r \in 0..1, v \in 0..2, upd \in BOOLEAN : Insert(k, r, v, upd)
  \/ \E k \in 0..30 : Remove(k)
  \/ PopBack
  \/ Clear
  \/ RetainStart \/ RetainStep \/ RetainEnd

\* ------------------------------------------------- the refinement (action) --
\* what the dictionary does for the same call, on the abstract content
Refines ==
  LET D == Abs(slots)
      D2 == Abs(slots')
      c == last' IN
  /\ c.op = "get" =>
       /\ D2 = D
       /\ c.found = (c.k \in Keys(slots))
       /\ c.found => <<c.k, c.ret>> \in D
  /\ c.op \in {"insert", "insert_kv"} =>
       /\ c.found = (c.k \in Keys(slots))
       /\ c.found => <<c.k, c.ret>> \in D /\ <<c.k, c.retr>> \in Ids(slots)      \* the old value (and, for insert_kv, the old key object) comes back
       /\ D2 = {p \in D : p[1] # c.k} \union {<<c.k, c.v>>}
       \* stored-key identity: insert keeps the key object that was stored, insert_key_value swaps it
       /\ Ids(slots') = {p \in Ids(slots) : p[1] # c.k}
                          \union {<<c.k, IF c.found /\ c.op = "insert" THEN c.retr ELSE c.r>>}
  /\ c.op = "insert_full" =>                                   \* only a full map rejects, and only a new key
       /\ D2 = D /\ Len(slots) = Cap /\ c.k \notin Keys(slots)
  /\ c.op = "remove" =>
       /\ c.found = (c.k \in Keys(slots))
       /\ c.found => <<c.k, c.ret>> \in D /\ <<c.k, c.retr>> \in Ids(slots)
       /\ D2 = {p \in D : p[1] # c.k}
       /\ Ids(slots') = {p \in Ids(slots) : p[1] # c.k}            \* no other key object is disturbed
  /\ c.op = "pop" =>
       /\ <<c.k, c.ret>> \in D
       /\ D2 = D \ {<<c.k, c.ret>>}
  /\ c.op = "clear" => D2 = {}
  /\ c.op = "retain_end" => D2 = {p \in d0 : p[1] \in Keep}      \* exactly the kept entries remain
=============================================================================
