------------------------------- MODULE Trace -------------------------------
(***************************************************************************)
(* Direction B: executions recorded from the REAL crate are validated       *)
(* against the ideal dictionary of Dict.tla.                                *)
(*                                                                         *)
(* The harness (harness/src/trace.rs) drives long random histories on real  *)
(* containers at capacities the exhaustive graphs do not reach and writes   *)
(* one ndjson event per public call at its return:                          *)
(*   n     capacity              mode  "map" | "set"                       *)
(*   s     the slot sequence observed BEFORE the call  [[c, r, v], ...]    *)
(*   o     the call and its arguments (same vocabulary as MapOps.tla)      *)
(*   r     the normalised return value / episode observations               *)
(*   p     the entries observed AFTER the call [[kt, c, r, vt, v], ...]    *)
(*   dk,dv the key / value objects destroyed during the call                *)
(*   lk,lv the objects that are alive afterwards but neither stored nor     *)
(*         handed to the caller (leaked)                                    *)
(*   viol  what the instruments saw (double destruction, dead data, ...)    *)
(* Object tags are positional for the pre-state (slot i holds K_i, V_i),    *)
(* 10+j for arguments; an object the harness cannot name gets a negative    *)
(* tag and therefore can never be accepted.                                 *)
(*                                                                         *)
(* One trace action: the event must be an outcome Dict!DictAllows permits   *)
(* in the content the previous event left behind, the observed pre-state    *)
(* must BE that content (events chain), and the standing invariants of C05  *)
(* hold in every observed state.  Iteration order is never constrained.     *)
(***************************************************************************)
EXTENDS Naturals, Sequences, FiniteSets, TLC, Json, IOUtils

Dict == INSTANCE Dict

Rec == ndJsonDeserialize(IOEnv.TRACE)

VARIABLES l, content
vars == <<l, content>>

SetOf(q) == {q[i] : i \in 1..Len(q)}
Ent(x) == [kt |-> x[1], c |-> x[2], r |-> x[3], vt |-> x[4], v |-> x[5]]
TagPre(s, mode) ==
  {[kt |-> i, c |-> s[i][1], r |-> s[i][2], vt |-> IF mode = "set" THEN 0 ELSE i, v |-> s[i][3]] : i \in 1..Len(s)}
Untag(D) == {<<e.c, e.r, e.v>> : e \in D}

\* JSON has no sets: a retain predicate's keep-set arrives as an array
NormOp(o) == IF "keep" \in DOMAIN o THEN [o EXCEPT !.keep = SetOf(@)] ELSE o

Init == l = 1 /\ content = {}

\* WINDOWED events (containers of more than 65 536 entries): `s` and `p` list the WATCHED entries only;
\* `hid` / `hid2` = the number of entries outside the window before / after the call, `hsum` / `hsum2` a
\* checksum over every hidden entry (objects and contents). The calls recorded this way (inserts, lookups,
\* removals, Entry API, get_disjoint_mut, insert_unchecked) speak about watched keys only, so the ideal
\* dictionary's verdict is DictAllows on the window at the capacity the hidden entries leave, and the
\* hidden part must be exactly what it was. Ordinary events have no such fields (hid = 0).
Hid(e)  == IF "hid" \in DOMAIN e THEN e.hid ELSE 0
Hid2(e) == IF "hid2" \in DOMAIN e THEN e.hid2 ELSE 0
ConsumeAllNames == {"drain_all", "into_iter_all"}      \* the whole content leaves through a consuming cursor
HiddenUntouched(e) == ("hid" \in DOMAIN e /\ e.o.name \notin ConsumeAllNames) => (e.hid2 = e.hid /\ e.hsum2 = e.hsum)
\* (`retain` in a windowed history rejects watched keys only: its predicate keeps every key that is not listed;
\*  `cursor_all` is a complete traversal with a borrowing cursor, see AllowedCursorAll)
WindowNames == {"insert", "insert_key_value", "checked_insert", "insert_unchecked", "get", "get_key_value", "contains_key", "index",
                "get_mut", "index_mut", "remove", "remove_entry", "entry", "disjoint", "retain", "cursor_all"} \cup ConsumeAllNames

\* the three groups of conjuncts, so that a rejection can say which one failed
PostOf(e) == {Ent(x) : x \in SetOf(e.p)}
WellFormedEv(e) ==                                            \* C05 / C03 in every observed state
  LET D == TagPre(e.s, e.mode) IN
  /\ Cardinality(D) = Len(e.s) /\ Dict!DUniqueKeys(D) /\ Len(e.s) + Hid(e) <= e.n
  /\ Dict!DUniqueKeys(PostOf(e)) /\ Cardinality(PostOf(e)) = Len(e.p) /\ Len(e.p) + Hid2(e) <= e.n
  /\ e.len = Len(e.p) + Hid2(e) /\ e.empty = (e.len = 0)     \* len() / is_empty() agree with iteration
  /\ HiddenUntouched(e)
  /\ ("hid" \in DOMAIN e) => e.o.name \in WindowNames
InstrumentsOK(e) == e.viol = <<>>                             \* nothing destroyed twice, no dead data used
\* A complete traversal of a very large container (iter / iter_mut / keys): every entry exactly once and
\* nothing else. The watched entries it yields are listed (`win`); of the hidden ones the recorder reports
\* how many came out and their digest, which must be the digest of the hidden part itself (over pairs, or
\* over key objects alone for keys()); the total is len(); nothing is changed, destroyed or leaked.
AllowedCursorAll(e) ==
  LET D == TagPre(e.s, e.mode) IN
  /\ PostOf(e) = D /\ e.dk = <<>> /\ e.dv = <<>> /\ e.lk = <<>> /\ e.lv = <<>>
  /\ e.r.hc = e.hid /\ e.r.hs = (IF e.o.kind = "keys" THEN e.hksum ELSE e.hsum)
  /\ e.r.count = Len(e.s) + e.hid
  /\ Len(e.r.win) = Cardinality(D) /\ SetOf(e.r.win) = {Dict!DProj(e.o.kind, x) : x \in D}
\* drain() / into_iter() consumed to the end on a very large container: exactly the entries the container held,
\* each once (watched ones listed, hidden ones by count and digest); afterwards the container is empty; nothing was
\* destroyed by the call (the caller owns every yielded pair)
AllowedConsumeAll(e) ==
  LET D == TagPre(e.s, e.mode) IN
  /\ e.p = <<>> /\ e.hid2 = 0 /\ e.len = 0 /\ e.empty
  /\ e.dk = <<>> /\ e.dv = <<>> /\ e.lk = <<>> /\ e.lv = <<>>
  /\ e.r.hc = e.hid /\ e.r.hs = e.hsum /\ e.r.count = Len(e.s) + e.hid
  /\ Len(e.r.win) = Cardinality(D) /\ SetOf(e.r.win) = {Dict!DJEnt(x) : x \in D}
Allowed(e) ==
  LET res == [ret |-> e.r, post |-> PostOf(e), dk |-> SetOf(e.dk), dv |-> SetOf(e.dv), lk |-> SetOf(e.lk), lv |-> SetOf(e.lv)]
  IN IF e.o.name \in ConsumeAllNames THEN AllowedConsumeAll(e)
     ELSE IF e.o.name = "cursor_all" THEN AllowedCursorAll(e)
     ELSE Dict!DictAllows(TagPre(e.s, e.mode), e.n - Hid(e), NormOp(e.o), res)

\* A call during which user code panicked (the harness injected a panic into one of its
\* callbacks): C04 tolerates leaks and an arbitrary - but well-formed - outcome.  What must hold:
\* nothing that is stored afterwards has been destroyed, every stored object is one that existed
\* before or came in as an argument (no object out of thin air / from a dead slot), and the
\* instruments saw no double destruction and no use of dead or uninitialised data.
Havoc(e) ==
  LET D == TagPre(e.s, e.mode)
      post == PostOf(e) IN
  /\ Dict!DKT(post) \cap SetOf(e.dk) = {}
  /\ (Dict!DVT(post) \ {0}) \cap SetOf(e.dv) = {}
  /\ \A x \in post : x.kt > 0 /\ x.vt >= 0

EventOK(e) ==
  IF e.o.name = "reset" THEN TRUE        \* a new empty container (the old one was dropped: see its own event)
  ELSE IF e.o.name = "final_drop" THEN e.viol = <<>>   \* the end of a windowed history: every object destroyed exactly once
  ELSE /\ Untag(TagPre(e.s, e.mode)) = content                \* the call starts where the previous one ended
       /\ WellFormedEv(e) /\ InstrumentsOK(e)
       /\ IF e.injected THEN Havoc(e) ELSE Allowed(e)

Step ==
  /\ l <= Len(Rec)
  /\ EventOK(Rec[l])
  \* (a windowed history starts from a container the harness has filled itself: `init` = the watched entries)
  /\ content' = IF Rec[l].o.name = "final_drop" THEN {} ELSE IF Rec[l].o.name = "reset"
                THEN (IF "init" \in DOMAIN Rec[l] THEN {<<x[1], x[2], x[3]>> : x \in SetOf(Rec[l].init)} ELSE {})
                ELSE Untag({Ent(x) : x \in SetOf(Rec[l].p)})
  /\ l' = l + 1

Spec == Init /\ [][Step]_vars

\* every event was consumed; otherwise name the first one the specification rejects
Accepted ==
  IF TLCGet("stats").diameter - 1 = Len(Rec) THEN TRUE
  ELSE LET e == Rec[TLCGet("stats").diameter]
           why == IF e.injected /\ (~WellFormedEv(e) \/ ~InstrumentsOK(e) \/ ~Havoc(e)) THEN "PANIC"
                  ELSE IF ~WellFormedEv(e) THEN "WF" ELSE IF ~InstrumentsOK(e) THEN "VIOL" ELSE IF ~Allowed(e) THEN "ALLOW" ELSE "CHAIN" IN
       /\ PrintT(<<"REJECTED-AT", TLCGet("stats").diameter, why, e.o>>)
       /\ FALSE
=============================================================================
