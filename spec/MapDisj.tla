------------------------------ MODULE MapDisj ------------------------------
(***************************************************************************)
(* get_disjoint_unchecked_mut (map.rs) for capacities beyond TLC's graphs:  *)
(* for ANY slot sequence with pairwise different keys (length <= 10) and    *)
(* ANY request of pairwise different keys (length <= 4), the one-pass stack *)
(* algorithm - match every live slot against the requests front to back,    *)
(* push (slot, request), split from the back - never overflows the stack of *)
(* J entries, yields strictly increasing slot indices, and hands position j *)
(* exactly the slot a plain scan finds for ks[j].  Checked with Apalache on *)
(* generated states (no transitions).                                       *)
(***************************************************************************)
EXTENDS Integers, Sequences, Apalache

VARIABLES
  \* @type: Seq(Int);
  slots,
  \* @type: Seq(Int);
  ks

\* @type: (Seq(Int), Int) => Int;
Find(s, k) ==
  IF \E i \in DOMAIN s : s[i] = k
  THEN CHOOSE i \in DOMAIN s : s[i] = k /\ \A j \in DOMAIN s : j < i => s[j] # k
  ELSE 0

\* position(|k| k == p.0): first request equal to the slot's key, 0 if none
\* @type: (Seq(Int), Int) => Int;
FirstReq(q, c) == Find(q, c)

\* one pass over the live slots; the stack holds <<slot index, request index>>
\* @type: ({i: Int, st: Seq(<<Int, Int>>)}, Int) => {i: Int, st: Seq(<<Int, Int>>)};
Push(acc, c) ==
  LET j == FirstReq(ks, c) IN
  [i |-> acc.i + 1, st |-> IF j = 0 THEN acc.st ELSE Append(acc.st, <<acc.i, j>>)]

Stack == ApaFoldSeqLeft(Push, [i |-> 1, st |-> <<>>], slots).st

\* @type: Seq(Int) => Bool;
Unique(s) == \A i, j \in DOMAIN s : s[i] = s[j] => i = j

Init ==
  /\ slots = Gen(10) /\ ks = Gen(4)
  /\ Unique(slots) /\ Unique(ks)

Next == UNCHANGED <<slots, ks>>

Inv ==
  LET st == Stack IN
  /\ Len(st) <= Len(ks)                                              \* stack[stack_top] never overflows
  /\ \A n, m \in DOMAIN st : n < m => st[n][1] < st[m][1]            \* split_at_mut from the back is legal
  /\ \A n \in DOMAIN st : st[n][1] \in DOMAIN slots /\ ks[st[n][2]] = slots[st[n][1]]
  /\ \A j \in DOMAIN ks :                                            \* position j gets what a plain scan finds
       IF \E n \in DOMAIN st : st[n][2] = j
       THEN \E n \in DOMAIN st : st[n][2] = j /\ st[n][1] = Find(slots, ks[j])
       ELSE Find(slots, ks[j]) = 0
  /\ \A n, m \in DOMAIN st : n # m => st[n][2] # st[m][2]            \* no request gets two slots
=============================================================================
