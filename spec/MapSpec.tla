------------------------------ MODULE MapSpec ------------------------------
(***************************************************************************)
(* The state machine of ONE container (a Map<K,V,cap> or, with Mode="set",  *)
(* a Set<T,cap>): state = capacity + live slot sequence; one action per     *)
(* public call, with every argument instance the constants allow.           *)
(*                                                                         *)
(* TLC (1) explores every reachable slot layout, (2) evaluates in every     *)
(* state the invariants below - in particular RefinesDict, which compares   *)
(* EVERY operation instance against the ideal dictionary of Dict.tla - and  *)
(* (3) with Emit = TRUE prints each explored transition of the selected     *)
(* Family as one JSON line; those lines are the labelled state graph that   *)
(* the Rust harness replays against the real crate (direction A).           *)
(***************************************************************************)
EXTENDS MapOps, TLC, Json

CONSTANTS
  Caps,       \* set of capacities explored (chosen in Init, then constant)
  Classes,    \* key equivalence classes
  Vers,       \* distinguishable key objects per class
  Vals,       \* value contents ({0} for Mode = "set")
  Mode,       \* "map" | "set"
  Family,     \* which operation families are enumerated: subset of FamilyNames
  Emit,       \* BOOLEAN: print transitions
  MaxKs,      \* longest get_disjoint_mut request
  MaxExtra    \* bulk sequences have length 0..cap+MaxExtra

VARIABLES slots, cap
vars == <<slots, cap>>

Dict == INSTANCE Dict

FamilyNames == {"core", "cursor", "entry", "disjoint", "bulk", "fmt", "unchecked", "clone", "serde"}

Entries == [c : Classes, r : Vers, v : Vals]
\* positional tagging of the pre-state; the unit values of a Set are not objects (tag 0)
TagM(s) == IF Mode = "set" THEN [i \in 1..Len(s) |-> [Tag(s)[i] EXCEPT !.vt = 0]] ELSE Tag(s)
ArgK(j, c, r) == [kt |-> 10 + j, c |-> c, r |-> r]
ArgV(j, v) == [vt |-> 10 + j, v |-> v]
Writes == Vals \cup {NoWrite}
MinVal == CHOOSE v \in Vals : \A u \in Vals : v <= u

\* ------------------------------------------------------ op enumeration --
\* ways to consume the rest of a cursor that has `m` items left: plain (none), nth inside the
\* range, nth just beyond / far beyond the end, last, fold
\* (Huge stands for usize::MAX: the replay passes exactly that to nth)
Huge == 2000000000
FinsFor(m) == {<<"none", 0>>, <<"last", 0>>, <<"fold", 0>>} \cup {<<"nth", j>> : j \in {0, 1, m, m + 2, Huge}}
              \cup {<<"any", 0>>, <<"any", m>>, <<"all", 1>>, <<"position", 1>>, <<"find", 1>>, <<"find", m>>}
              \cup {<<"for_each", 0>>, <<"reduce", 0>>, <<"collect", 0>>, <<"min_by", 0>>, <<"max_by", 0>>, <<"find_map", 0>>, <<"find_map", 1>>}

CoreOps(ts) ==
  {[name |-> nm, k |-> ArgK(1, c, r), v |-> ArgV(1, v)] :
      nm \in {"insert", "insert_key_value", "checked_insert"}, c \in Classes, r \in Vers, v \in Vals}
  \cup {[name |-> nm, c |-> c, form |-> f] :
      nm \in {"get", "get_key_value", "contains_key", "index", "remove", "remove_entry"}, c \in Classes, f \in {0, 1}}
  \cup {[name |-> nm, c |-> c, form |-> f, w |-> w] :
      nm \in {"get_mut", "index_mut"}, c \in Classes, f \in {0, 1}, w \in Writes}
  \cup {[name |-> "retain", keep |-> K, w |-> w] : K \in SUBSET Classes, w \in Writes}
  \cup {[name |-> "clear"], [name |-> "drop"], [name |-> "default"], [name |-> "iter_defaults"]}
  \cup {[name |-> "with_capacity", c |-> c] : c \in {cap, cap + 1}}
  \cup UNION {{[name |-> "drain", n |-> n, end |-> e, fin |-> f[1], j |-> f[2]] : f \in FinsFor(Len(ts) - n), e \in {"drop", "forget"}} : n \in 0..Len(ts)}

UncheckedOps(ts) ==
  {[name |-> "insert_unchecked", k |-> ArgK(1, c, r), v |-> ArgV(1, v)] :
      c \in {c \in Classes : UncheckedPre(ts, cap, [c |-> c])}, r \in Vers, v \in Vals}
  \cup {[name |-> "disjoint", ks |-> ks, w |-> w, unchecked |-> TRUE] :
      ks \in {q \in UNION {[1..j -> Classes] : j \in 0..MaxKs} : ~HasDupKeys(q)}, w \in Writes}

CursorOps(ts) ==
  UNION {
  \* via = "m": the method (iter(), iter_mut(), ...); via = "r": IntoIterator for &Map / &mut Map
  {x \in {[name |-> "cursor", kind |-> kd, n |-> n, w |-> w, end |-> "drop", fin |-> f[1], j |-> f[2], via |-> v] :
            kd \in BorrowKinds \ MutKinds, w \in {NoWrite}, f \in FinsFor(Len(ts) - n), v \in {"m", "r"}} : x.via = "m" \/ x.kind = "iter"}
  \cup {x \in {[name |-> "cursor", kind |-> kd, n |-> n, w |-> w, end |-> "drop", fin |-> f[1], j |-> f[2], via |-> v] :
            kd \in MutKinds, w \in Writes, f \in FinsFor(Len(ts) - n), v \in {"m", "r"}} : x.via = "m" \/ x.kind = "iter_mut"}
  \cup {[name |-> "cursor", kind |-> kd, n |-> n, w |-> NoWrite, end |-> e, fin |-> f[1], j |-> f[2]] :
      kd \in ConsumeKinds, e \in {"drop", "forget"}, f \in FinsFor(Len(ts) - n)} : n \in 0..Len(ts)}

EntryOps(ts) ==
  {[name |-> "entry", m |-> m, k |-> ArgK(1, c, r), v |-> ArgV(1, v), w |-> w] :
      m \in EntryMethods \ (EntryMethodsV \cup EntryMethodsW), c \in Classes, r \in Vers, v \in {MinVal}, w \in {NoWrite}}
  \cup {[name |-> "entry", m |-> m, k |-> ArgK(1, c, r), v |-> ArgV(1, v), w |-> w] :
      m \in EntryMethodsV \ EntryMethodsW, c \in Classes, r \in Vers, v \in Vals, w \in {NoWrite}}
  \cup {[name |-> "entry", m |-> m, k |-> ArgK(1, c, r), v |-> ArgV(1, v), w |-> w] :
      m \in EntryMethodsW \ EntryMethodsV, c \in Classes, r \in Vers, v \in {MinVal}, w \in Vals}
  \cup {[name |-> "entry", m |-> m, k |-> ArgK(1, c, r), v |-> ArgV(1, v), w |-> w] :
      m \in EntryMethodsV \cap EntryMethodsW, c \in Classes, r \in Vers, v \in Vals, w \in Vals}

DisjointOps(ts) ==
  {[name |-> "disjoint", ks |-> ks, w |-> w, unchecked |-> FALSE] :
      ks \in UNION {[1..j -> Classes] : j \in 0..MaxKs}, w \in Writes}

\* bulk items: classes are free, version / content / tags follow the position
PickR(j) == IF (j % 2) \in Vers THEN j % 2 ELSE CHOOSE r \in Vers : TRUE
PickV(j) == IF (j % 2) \in Vals THEN j % 2 ELSE CHOOSE v \in Vals : TRUE
Item(j, c) == [k |-> ArgK(j, c, PickR(j)), v |-> IF Mode = "set" THEN UnitVal ELSE ArgV(j, PickV(j))]
ItemSeqsOf(n) == {[j \in 1..n |-> Item(j, cs[j])] : cs \in [1..n -> Classes]}

\* what the source iterator claims through size_hint: nothing ("none"), the truth ("exact"), or an
\* upper bound of zero ("zero": safe code may lie); the result must not depend on it
Hints == {"none", "exact", "zero"}
BulkOps(ts) ==
  IF ts # <<>> THEN {}
  ELSE {[name |-> "from_iter", items |-> it, hint |-> h] : it \in UNION {ItemSeqsOf(n) : n \in 0..(cap + MaxExtra)}, h \in Hints}
       \cup {[name |-> "from_array", items |-> it] : it \in ItemSeqsOf(cap)}

SubOps ==
  IF Mode = "set"
  THEN {[name |-> "none"], [name |-> "s_clear"]}
       \cup {[name |-> "s_insert", k |-> ArgK(1, c, CHOOSE r \in Vers : TRUE)] : c \in Classes}
       \cup {[name |-> "s_remove", c |-> c, form |-> 1] : c \in Classes}
  ELSE {[name |-> "none"], [name |-> "clear"]}
       \cup {[name |-> "insert", k |-> ArgK(1, c, CHOOSE r \in Vers : TRUE), v |-> ArgV(1, v)] : c \in Classes, v \in Vals}
       \cup {[name |-> "remove", c |-> c, form |-> 1] : c \in Classes}
       \cup {[name |-> "get_mut", c |-> c, form |-> 0, w |-> w] : c \in Classes, w \in Vals}
\* destinations of clone_from: empty, one entry, two entries (shorter / equal / longer than the source)
DstSeqs == {<<>>} \cup {<<[c |-> c, r |-> CHOOSE r \in Vers : TRUE, v |-> MinVal]>> : c \in Classes}
           \cup {x \in {<<[c |-> c, r |-> CHOOSE r \in Vers : TRUE, v |-> MinVal], [c |-> d, r |-> CHOOSE r \in Vers : TRUE, v |-> MinVal]>> :
                           c \in Classes, d \in Classes} : x[1].c # x[2].c}
CloneOps(ts) ==
  {[name |-> "clone", then |-> t, on |-> o, survivor |-> sv] : t \in SubOps, o \in {"orig", "copy"}, sv \in {"orig", "copy"}}
  \cup {[name |-> IF Mode = "set" THEN "s_clone_from" ELSE "clone_from", dst |-> d] : d \in {d \in DstSeqs : Len(d) <= cap}}

\* target capacities: exactly enough, the source capacity, more than the source capacity
SerdeOps(ts) ==
  \* place = "inplace": Deserialize::deserialize_in_place into a target that already holds a stale entry
  {[name |-> "serde", fmt |-> f, m |-> m, place |-> pl] : f \in {"json", "bincode"}, m \in {Len(ts), cap, cap + 1}, pl \in {"new", "inplace"}}
  \* hand-made streams (repeated keys, one key too many) decoded into a container of this capacity
  \cup (IF ts # <<>> THEN {}
        ELSE {[name |-> "de_items", fmt |-> f, stream |-> it] : f \in {"json", "bincode"}, it \in UNION {ItemSeqsOf(n) : n \in 0..(cap + 1)}})

\* "debug_w" / "display_w": the same renderings requested with a width / alignment in the format spec
FmtStyles == {"debug", "alt", "display", "debug_w", "display_w", "display_alt"}
FmtOps(ts) == {[name |-> "fmt", style |-> st] : st \in FmtStyles}

SetCoreOps(ts) ==
  {[name |-> nm, k |-> ArgK(1, c, r)] : nm \in {"s_insert", "s_replace"}, c \in Classes, r \in Vers}
  \cup {[name |-> nm, c |-> c, form |-> f] :
      nm \in {"s_contains", "s_get", "s_remove", "s_take"}, c \in Classes, f \in {0, 1}}
  \cup {[name |-> "s_retain", keep |-> K] : K \in SUBSET Classes}
  \cup {[name |-> "s_clear"], [name |-> "s_drop"], [name |-> "s_default"]}
  \cup UNION {{[name |-> "s_drain", n |-> n, end |-> e, fin |-> f[1], j |-> f[2]] : f \in FinsFor(Len(ts) - n), e \in {"drop", "forget"}} : n \in 0..Len(ts)}
  \cup UNION {{[name |-> "s_iter", n |-> n, fin |-> f[1], j |-> f[2], via |-> v] : f \in FinsFor(Len(ts) - n), v \in {"m", "r"}} : n \in 0..Len(ts)}
  \cup UNION {{[name |-> "s_into_iter", n |-> n, end |-> e, fin |-> f[1], j |-> f[2]] : f \in FinsFor(Len(ts) - n), e \in {"drop", "forget"}} : n \in 0..Len(ts)}
  \cup {[name |-> "s_fmt", style |-> st] : st \in FmtStyles}

SetBulkOps(ts) ==
  {[name |-> "s_extend", items |-> it, hint |-> h] : it \in UNION {ItemSeqsOf(n) : n \in 0..((cap - Len(ts)) + MaxExtra)}, h \in Hints}
  \cup (IF ts # <<>> THEN {}
        ELSE {[name |-> "s_from_iter", items |-> it, hint |-> h] : it \in UNION {ItemSeqsOf(n) : n \in 0..(cap + MaxExtra)}, h \in Hints}
             \cup {[name |-> "s_from_array", items |-> it] : it \in ItemSeqsOf(cap)})

FamilyOps(ts) ==
  IF Mode = "set"
  THEN (IF "core" \in Family THEN SetCoreOps(ts) ELSE {}) \cup (IF "bulk" \in Family THEN SetBulkOps(ts) ELSE {})
       \cup (IF "fmt" \in Family THEN {[name |-> "s_fmt", style |-> st] : st \in FmtStyles} ELSE {})
       \cup (IF "clone" \in Family THEN CloneOps(ts) ELSE {}) \cup (IF "serde" \in Family THEN SerdeOps(ts) ELSE {})
  ELSE (IF "core" \in Family THEN CoreOps(ts) ELSE {})
       \cup (IF "unchecked" \in Family THEN UncheckedOps(ts) ELSE {})
       \cup (IF "cursor" \in Family THEN CursorOps(ts) ELSE {})
       \cup (IF "entry" \in Family THEN EntryOps(ts) ELSE {})
       \cup (IF "disjoint" \in Family THEN DisjointOps(ts) ELSE {})
       \cup (IF "bulk" \in Family THEN BulkOps(ts) ELSE {})
       \cup (IF "fmt" \in Family THEN FmtOps(ts) ELSE {})
       \cup (IF "clone" \in Family THEN CloneOps(ts) ELSE {}) \cup (IF "serde" \in Family THEN SerdeOps(ts) ELSE {})

\* --------------------------------------------------------- transitions --
JS(e) == <<e.c, e.r, e.v>>
Record(op, r, alt) ==
  IF alt.ret[1] = "-"
  THEN [n |-> cap, s |-> SeqMap(JS, slots), o |-> op, r |-> r.ret, p |-> SeqMap(JEnt, r.post),
        dk |-> r.dk, dv |-> r.dv, lk |-> r.lk, lv |-> r.lv]
  ELSE [n |-> cap, s |-> SeqMap(JS, slots), o |-> op, r |-> r.ret, p |-> SeqMap(JEnt, r.post),
        dk |-> r.dk, dv |-> r.dv, lk |-> r.lk, lv |-> r.lv,
        ar |-> alt.ret, ap |-> SeqMap(JEnt, alt.post)]

Init == cap \in Caps /\ slots = <<>>

\* every well-formed layout is reached by plain inserts / removes / writes,
\* whatever Family is being enumerated
Reach ==
  \/ \E c \in Classes, r \in Vers, v \in Vals :
        LET x == OpInsert(TagM(slots), cap, ArgK(1, c, r), ArgV(1, v)) IN slots' = Strip(x.post)
  \/ \E c \in Classes : slots' = Strip(OpRemove(TagM(slots), c).post)

Step ==
  \E op \in FamilyOps(TagM(slots)) :
     LET r == Apply(TagM(slots), cap, op) IN
     /\ slots' = Strip(r.post)
     /\ (Emit => PrintT(<<"TR", ToJson(Record(op, r, AltOf(TagM(slots), cap, op)))>>))

Next == (Reach \/ Step) /\ UNCHANGED cap
Spec == Init /\ [][Next]_vars

\* ----------------------------------------------------------- invariants --
TypeOK == cap \in Caps /\ Len(slots) \in 0..cap /\ \A i \in 1..Len(slots) : slots[i] \in Entries
Bounded == Len(slots) <= cap                                                   \* C03, C05
UniqueKeys == \A i, j \in 1..Len(slots) : slots[i].c = slots[j].c => i = j     \* C05

Abs(r) == [ret |-> r.ret, post |-> SeqRange(r.post), dk |-> r.dk, dv |-> r.dv, lk |-> r.lk, lv |-> r.lv]
WellFormedPost(p) == Len(p) <= cap /\ \A i, j \in 1..Len(p) : p[i].c = p[j].c => i = j

\* Map.tla refines Dict.tla: for the current state and EVERY operation instance,
\* the implementation-shaped result is an outcome the ideal dictionary allows
\* (C01, C07, C09-C13, C16, C18, C19) and leaves a well-formed container (C05)
RefinesDict ==
  \A op \in FamilyOps(TagM(slots)) :
     LET ts == TagM(slots)
         r == Apply(ts, cap, op)
         alt == AltOf(ts, cap, op) IN
     /\ WellFormedPost(r.post)
     /\ Dict!DictAllows(SeqRange(ts), cap, op, Abs(r))
     /\ alt.ret[1] # "-" =>
          Dict!DictAllows(SeqRange(ts), cap, op, [Abs(r) EXCEPT !.ret = alt.ret, !.post = SeqRange(alt.post)])

\* ownership conservation (C02): every key / value object that was stored,
\* came in as an argument or was created by the call is afterwards in exactly
\* one place: stored, handed to the caller, destroyed or (forget only) leaked
RECURSIVE OwnedRetK(_, _), OwnedRetV(_, _)
OwnedRetK(op, r) ==
  CASE op.name = "clone" -> OwnedRetK(op.then, [ret |-> r.ret.then])
    [] op.name \in {"insert_key_value", "remove_entry"} /\ r.ret[1] = "ent" -> {r.ret[2]}
    [] op.name \in {"s_replace", "s_take"} /\ r.ret[1] = "key" -> {r.ret[2]}
    [] op.name = "drain" \/ (op.name = "cursor" /\ op.kind \in {"into_iter", "into_keys"})
         -> {r.ret.yield[i][1] : i \in 1..Len(r.ret.yield)} \cup {r.ret.fin.r[i][1] : i \in 1..Len(r.ret.fin.r)}
    [] op.name \in {"s_drain", "s_into_iter"} -> {r.ret.yield[i][1] : i \in 1..Len(r.ret.yield)} \cup {r.ret.fin.r[i][1] : i \in 1..Len(r.ret.fin.r)}
    [] op.name = "entry" /\ op.m = "occ_remove_entry" /\ r.ret[1] = "occ" -> {r.ret[2]}
    [] op.name = "entry" /\ op.m = "vac_into_key" /\ r.ret[1] = "vack" -> {r.ret[2]}
    [] OTHER -> {}
OwnedRetV(op, r) ==
  CASE op.name = "clone" -> OwnedRetV(op.then, [ret |-> r.ret.then])
    [] op.name \in {"insert", "insert_unchecked", "remove"} /\ r.ret[1] = "val" -> {r.ret[2]}
    [] op.name = "checked_insert" /\ r.ret[1] = "some_val" -> {r.ret[2]}
    [] op.name \in {"insert_key_value", "remove_entry"} /\ r.ret[1] = "ent" -> {r.ret[5]}
    [] op.name = "drain" \/ (op.name = "cursor" /\ op.kind = "into_iter")
         -> {r.ret.yield[i][4] : i \in 1..Len(r.ret.yield)} \cup {r.ret.fin.r[i][4] : i \in 1..Len(r.ret.fin.r)}
    [] op.name = "cursor" /\ op.kind = "into_values" -> {r.ret.yield[i][1] : i \in 1..Len(r.ret.yield)} \cup {r.ret.fin.r[i][1] : i \in 1..Len(r.ret.fin.r)}
    [] op.name = "entry" /\ op.m \in {"occ_insert", "occ_remove"} /\ r.ret[1] = "occ" -> {r.ret[2]}
    [] op.name = "entry" /\ op.m = "occ_remove_entry" /\ r.ret[1] = "occ" -> {r.ret[5]}
    [] OTHER -> {}
RECURSIVE ArgKT(_), ArgVT(_)
ArgKT(op) ==
  IF op.name = "clone" THEN ArgKT(op.then) ELSE
  IF "k" \in DOMAIN op THEN {op.k.kt}
  ELSE IF "items" \in DOMAIN op THEN {op.items[j].k.kt : j \in 1..Len(op.items)} ELSE {}
ArgVT(op) ==
  IF op.name = "clone" THEN ArgVT(op.then) ELSE
  (IF "v" \in DOMAIN op /\ (op.name # "entry" \/ op.m \in EntryMethodsV) THEN {op.v.vt}
   ELSE IF "items" \in DOMAIN op THEN {op.items[j].v.vt : j \in 1..Len(op.items)} ELSE {})
NewKT(op, ts) == IF op.name = "clone" THEN KTags(CloneOf(ts))
                 ELSE IF op.name \in {"clone_from", "s_clone_from"} THEN KTags(CloneOf(ts)) \cup {60 + i : i \in 1..Len(op.dst)} ELSE {}
NewVT(op, r) == IF op.name = "clone" THEN {x[4] : x \in SeqRange(r.ret.cl)}
                ELSE IF op.name = "clone_from" THEN {x[4] : x \in SeqRange(r.ret.cl)} \cup {60 + i : i \in 1..Len(op.dst)} ELSE IF op.name = "entry" /\ op.m = "or_default" /\ r.ret[1] \in {"vac", "panic"} THEN {FreshTag} ELSE {}
PairwiseDisjoint(ss) == \A i, j \in 1..Len(ss) : i < j => ss[i] \cap ss[j] = {}

Conservation ==
  \A op \in FamilyOps(TagM(slots)) :
     LET ts == TagM(slots)
         r == Apply(ts, cap, op)
         fresh == op.name \in {"from_iter", "from_array", "s_from_iter", "s_from_array"}
         preK == IF fresh THEN {} ELSE KTags(ts)
         preV == IF fresh THEN {} ELSE VTags(ts)
         kparts == <<KTags(r.post), OwnedRetK(op, r), r.dk, r.lk>>
         vparts == <<VTags(r.post) \ {0}, OwnedRetV(op, r) \ {0}, r.dv, r.lv>>
     IN /\ PairwiseDisjoint(kparts) /\ PairwiseDisjoint(vparts)
        /\ UNION SeqRange(kparts) = preK \cup ArgKT(op) \cup NewKT(op, ts)
        /\ UNION SeqRange(vparts) = ((preV \cup ArgVT(op) \cup NewVT(op, r)) \ {0})

\* C18: inside its contract the unsafe fast path is the safe call, slot for slot
UncheckedAgrees ==
  \A c \in Classes, r \in Vers, v \in Vals :
     LET ts == TagM(slots)
         k == ArgK(1, c, r) IN
     UncheckedPre(ts, cap, k) => OpInsertUnchecked(ts, cap, k, ArgV(1, v)) = OpInsert(ts, cap, k, ArgV(1, v))

\* C13 / C18: on pairwise different requests the one-pass stack algorithm gives
\* position by position the slot a plain scan finds, and never the same slot twice
DisjointAgrees ==
  \A ks \in UNION {[1..j -> Classes] : j \in 0..MaxKs} :
     ~HasDupKeys(ks) =>
        LET ts == TagM(slots)
            idx == DisjointUnchecked(ts, ks) IN
        /\ \A j \in 1..Len(ks) : idx[j] = Find(ts, ks[j])
        /\ \A i, j \in 1..Len(ks) : (i # j /\ idx[i] # 0) => idx[i] # idx[j]
=============================================================================
