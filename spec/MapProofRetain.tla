--------------------------- MODULE MapProofRetain ---------------------------
(***************************************************************************)
(* TLAPS, unbounded capacity: map.rs retain                                 *)
(*     let mut i = 0;                                                       *)
(*     while i < self.len { if f(k, v) { i += 1 } else { swap-remove(i) } } *)
(* keeps exactly the pairs the predicate accepts.  `ri` is the loop cursor  *)
(* (1-based; 0 = no retain running), `d0` the abstract content when the    *)
(* loop started, `Keep` the set of keys the predicate accepts (any set).    *)
(* RInv is the loop invariant; RetainInv shows it inductive, RetainEndRef   *)
(* that on exit the content is {p \in d0 : p.k \in Keep}.                   *)
(***************************************************************************)
EXTENDS MapProofKV

CONSTANT Keep
VARIABLES ri, d0

RInv ==
  \/ ri = 0
  \/ /\ ri \in 1..(Len(slots) + 1)
     /\ \A j \in 1..Len(slots) : j < ri => slots[j].k \in Keep
     /\ Abs \subseteq d0
     /\ {p \in d0 : p.k \in Keep} \subseteq Abs

RetainStart == ri = 0 /\ ri' = 1 /\ d0' = Abs /\ UNCHANGED slots
RetainStep ==
  /\ ri \in 1..Len(slots) /\ UNCHANGED d0
  /\ IF slots[ri].k \in Keep THEN ri' = ri + 1 /\ UNCHANGED slots
     ELSE ri' = ri /\ SwapRemove(ri)
RetainEnd == ri = Len(slots) + 1 /\ ri' = 0 /\ UNCHANGED <<slots, d0>>

THEOREM RetainStartInv == ASSUME Inv, RetainStart PROVE RInv' /\ Inv'
  <1>0. slots \in Seq(Pair) /\ Len(slots) \in Nat BY DEF Inv, TypeOK
  <1>1. slots' = slots /\ ri' = 1 /\ d0' = Abs BY DEF RetainStart
  <1>2. Abs' = Abs BY <1>1 DEF Abs
  <1>3. Inv' BY <1>1 DEF Inv, TypeOK, Unique
  <1>4. RInv'
    <2>1. ri' \in 1..(Len(slots') + 1) BY <1>1, <1>0
    <2>2. \A j \in 1..Len(slots') : j < ri' => slots'[j].k \in Keep BY <1>1, <1>0
    <2>3. Abs' \subseteq d0' BY <1>1, <1>2
    <2>4. {p \in d0' : p.k \in Keep} \subseteq Abs' BY <1>1, <1>2
    <2>. QED BY <2>1, <2>2, <2>3, <2>4 DEF RInv
  <1>. QED BY <1>3, <1>4

THEOREM RetainStepInv == ASSUME Inv, RInv, RetainStep PROVE RInv' /\ Inv'
  <1> DEFINE n == Len(slots)
  <1>0. slots \in Seq(Pair) /\ n \in Nat /\ ri \in 1..n /\ d0' = d0 BY DEF Inv, TypeOK, RetainStep
  <1>r. /\ \A j \in 1..n : j < ri => slots[j].k \in Keep
        /\ Abs \subseteq d0
        /\ {p \in d0 : p.k \in Keep} \subseteq Abs
    BY <1>0 DEF RInv
  <1>1. CASE slots[ri].k \in Keep
    <2>1. slots' = slots /\ ri' = ri + 1 BY <1>1 DEF RetainStep
    <2>2. Abs' = Abs BY <2>1 DEF Abs
    <2>3. Inv' BY <2>1 DEF Inv, TypeOK, Unique
    <2>4. ri' \in 1..(Len(slots') + 1) BY <2>1, <1>0
    <2>5. \A j \in 1..Len(slots') : j < ri' => slots'[j].k \in Keep
      <3> SUFFICES ASSUME NEW j \in 1..n, j < ri + 1 PROVE slots[j].k \in Keep BY <2>1
      <3>1. CASE j = ri BY <3>1, <1>1
      <3>2. CASE j < ri BY <3>2, <1>r
      <3>. QED BY <3>1, <3>2, <1>0
    <2>. QED BY <2>2, <2>3, <2>4, <2>5, <1>r, <1>0 DEF RInv
  <1>2. CASE slots[ri].k \notin Keep
    <2>1. ri' = ri /\ SwapRemove(ri) BY <1>2 DEF RetainStep
    <2>2. Inv' BY <2>1, <1>0, SwapRemoveInv
    <2>3. Abs' = Abs \ {slots[ri]} BY <2>1, <1>0, SwapRemoveRef
    <2>4. slots' = [j \in 1..(n - 1) |-> IF j = ri THEN slots[n] ELSE slots[j]] BY <2>1 DEF SwapRemove
    <2>5. Len(slots') = n - 1 BY <2>4, <1>0
    <2>6. ri' \in 1..(Len(slots') + 1) BY <2>1, <2>5, <1>0
    <2>7. \A j \in 1..Len(slots') : j < ri' => slots'[j].k \in Keep
      <3> SUFFICES ASSUME NEW j \in 1..(n - 1), j < ri PROVE slots'[j].k \in Keep BY <2>1, <2>5
      <3>1. slots'[j] = slots[j] BY <2>4
      <3>2. j \in 1..n BY <1>0
      <3>. QED BY <3>1, <3>2, <1>r
    <2>8. Abs' \subseteq d0' BY <2>3, <1>r, <1>0
    <2>9. {p \in d0' : p.k \in Keep} \subseteq Abs'
      <3> SUFFICES ASSUME NEW p \in d0, p.k \in Keep PROVE p \in Abs' BY <1>0
      <3>1. p \in Abs BY <1>r
      <3>2. p # slots[ri] BY <1>2
      <3>. QED BY <3>1, <3>2, <2>3
    <2>. QED BY <2>2, <2>6, <2>7, <2>8, <2>9 DEF RInv
  <1>. QED BY <1>1, <1>2

\* on exit exactly the accepted pairs remain
THEOREM RetainEndRef == ASSUME Inv, RInv, RetainEnd PROVE Abs' = {p \in d0 : p.k \in Keep}
  <1>0. slots \in Seq(Pair) /\ Len(slots) \in Nat /\ ri = Len(slots) + 1 /\ slots' = slots BY DEF Inv, TypeOK, RetainEnd
  <1>1. ri # 0 BY <1>0
  <1>r. /\ \A j \in 1..Len(slots) : j < ri => slots[j].k \in Keep
        /\ Abs \subseteq d0
        /\ {p \in d0 : p.k \in Keep} \subseteq Abs
    BY <1>1 DEF RInv
  <1>2. Abs' = Abs BY <1>0 DEF Abs
  <1>3. \A p \in Abs : p.k \in Keep
    <2> SUFFICES ASSUME NEW p \in Abs PROVE p.k \in Keep OBVIOUS
    <2>1. PICK j \in 1..Len(slots) : p = slots[j] BY DEF Abs
    <2>2. j < ri BY <1>0
    <2>. QED BY <2>1, <2>2, <1>r
  <1>. QED BY <1>2, <1>3, <1>r
=============================================================================
