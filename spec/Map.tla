------------------------------- MODULE Map -------------------------------
(***************************************************************************)
(* Implementation-shaped ("macro") layer of micromap.                      *)
(*                                                                         *)
(* State of a container = the sequence of its live slots (slot order IS    *)
(* state, because removal is swap-remove) plus the constant capacity.      *)
(* Every operator below is a transcription of one function of the crate,   *)
(* structured like it; the file:line it is anchored in is given.           *)
(*                                                                         *)
(* Operators work on TAGGED slot sequences: every entry carries, besides   *)
(* its contents (class c, version r, value content v), the identity tag of *)
(* its key object (kt) and of its value object (vt).  Tags are opaque ids: *)
(* the generator tags the pre-state positionally (slot i holds K_i, V_i)   *)
(* and the trace specification uses the serial numbers of the real         *)
(* objects.  Tags are stripped before a post-state is stored, so they cost *)
(* nothing in the state space, but every transition says which object is   *)
(* stored / returned / destroyed / leaked.                                 *)
(***************************************************************************)
EXTENDS Naturals, Sequences, FiniteSets

\* ---------------------------------------------------------------- data --
KeyOf(e) == [kt |-> e.kt, c |-> e.c, r |-> e.r]
ValOf(e) == [vt |-> e.vt, v |-> e.v]
Mk(k, v) == [c |-> k.c, r |-> k.r, kt |-> k.kt, v |-> v.v, vt |-> v.vt]

\* JSON-able renderings used in return values
JKey(k) == <<k.kt, k.c, k.r>>
JVal(v) == <<v.vt, v.v>>
JEnt(e) == <<e.kt, e.c, e.r, e.vt, e.v>>
JEntK(e) == JKey(KeyOf(e))
JEntV(e) == JVal(ValOf(e))
\* tagged forms: the first element names the shape, so that two return values
\* can always be compared (TLC refuses string = tuple)
RKey(k) == <<"key">> \o JKey(k)
RVal(v) == <<"val">> \o JVal(v)
REnt(e) == <<"ent">> \o JEnt(e)
REntK(e) == RKey(KeyOf(e))
REntV(e) == RVal(ValOf(e))

Tag(s)    == [i \in 1..Len(s) |-> [c |-> s[i].c, r |-> s[i].r, v |-> s[i].v, kt |-> i, vt |-> i]]
Strip(ts) == [i \in 1..Len(ts) |-> [c |-> ts[i].c, r |-> ts[i].r, v |-> ts[i].v]]

KTags(ts) == {ts[i].kt : i \in 1..Len(ts)}
VTags(ts) == {ts[i].vt : i \in 1..Len(ts)}
SeqRange(s) == {s[i] : i \in 1..Len(s)}
Rev(s) == [i \in 1..Len(s) |-> s[Len(s) + 1 - i]]
Prefix(s, n) == SubSeq(s, 1, n)
Suffix(s, n) == SubSeq(s, n + 1, Len(s))     \* what is left after dropping n items
SeqMap(F(_), s) == [i \in 1..Len(s) |-> F(s[i])]

\* result of one public call
\*   ret   JSON-able return value / observation record
\*   post  tagged slot sequence afterwards
\*   dk,dv tags of key / value objects destroyed during the call
\*   lk,lv tags of key / value objects leaked (only by mem::forget of a cursor)
Res(ret, post, dk, dv) == [ret |-> ret, post |-> post, dk |-> dk, dv |-> dv, lk |-> {}, lv |-> {}]
ResL(ret, post, dk, dv, lk, lv) == [ret |-> ret, post |-> post, dk |-> dk, dv |-> dv, lk |-> lk, lv |-> lv]

\* ------------------------------------------------- linear scan (lookups) --
\* map.rs:131-137, 320-402, entry.rs:23-39: first live slot whose key equals
Find(ts, c) ==
  IF \E i \in 1..Len(ts) : ts[i].c = c
  THEN CHOOSE i \in 1..Len(ts) : ts[i].c = c /\ \A j \in 1..(i - 1) : ts[j].c # c
  ELSE 0

\* ------------------------------------------------------- insertion core --
\* map.rs:699-724  insert_ii(k, v, update_key) -> (index, existing_pair)
\* existing = <<>> for None, <<key, val>> for Some.  full & absent -> panic
InsertII(ts, cap, k, v, upd) ==
  LET i == Find(ts, k.c) IN
  IF i # 0 THEN
    IF upd
    THEN [panic |-> FALSE, idx |-> i, existing |-> <<KeyOf(ts[i]), ValOf(ts[i])>>,
          post |-> [ts EXCEPT ![i] = Mk(k, v)]]
    ELSE [panic |-> FALSE, idx |-> i, existing |-> <<k, ValOf(ts[i])>>,
          post |-> [ts EXCEPT ![i] = Mk(KeyOf(ts[i]), v)]]
  ELSE IF Len(ts) < cap
    THEN [panic |-> FALSE, idx |-> Len(ts) + 1, existing |-> <<>>, post |-> Append(ts, Mk(k, v))]
    ELSE [panic |-> TRUE, idx |-> 0, existing |-> <<>>, post |-> ts]   \* debug_assert / slice bounds check

\* map.rs:728-749  insert_ii_for_full: replace only, never append
InsertIIForFull(ts, k, v, upd) ==
  LET i == Find(ts, k.c) IN
  IF i # 0 THEN
    IF upd
    THEN [found |-> TRUE, idx |-> i, existing |-> <<KeyOf(ts[i]), ValOf(ts[i])>>,
          post |-> [ts EXCEPT ![i] = Mk(k, v)]]
    ELSE [found |-> TRUE, idx |-> i, existing |-> <<k, ValOf(ts[i])>>,
          post |-> [ts EXCEPT ![i] = Mk(KeyOf(ts[i]), v)]]
  ELSE [found |-> FALSE, idx |-> 0, existing |-> <<>>, post |-> ts]

\* map.rs:666-694  insert_i: explicit loop, read-the-pair-out-then-rewrite.
\* Only defined under the contract "not full or key present".
RECURSIVE InsertIScan(_, _, _)
InsertIScan(ts, c, i) ==       \* the `loop` with index i (1-based); 0 = ran off the end
  IF i > Len(ts) THEN 0
  ELSE IF ts[i].c = c THEN i
  ELSE InsertIScan(ts, c, i + 1)

InsertI(ts, k, v, upd) ==
  LET hit == InsertIScan(ts, k.c, 1)
      target == IF hit = 0 THEN Len(ts) + 1 ELSE hit
      grown == IF hit = 0 THEN Append(ts, Mk(k, v)) ELSE ts   \* len += 1, slot written below
  IN IF hit # 0 /\ ~upd
     THEN [idx |-> target, existing |-> <<k, ValOf(ts[hit])>>,
           post |-> [ts EXCEPT ![target] = Mk(KeyOf(ts[hit]), v)]]
     ELSE IF hit # 0
     THEN [idx |-> target, existing |-> <<KeyOf(ts[hit]), ValOf(ts[hit])>>,
           post |-> [ts EXCEPT ![target] = Mk(k, v)]]
     ELSE [idx |-> target, existing |-> <<>>, post |-> grown]

\* ------------------------------------------------------------ removal --
\* map.rs:640-659  remove_index_read / remove_index_drop: swap-remove
SwapRemove(ts, i) ==
  LET n == Len(ts) IN
  IF i = n THEN SubSeq(ts, 1, n - 1)
  ELSE [j \in 1..(n - 1) |-> IF j = i THEN ts[n] ELSE ts[j]]

\* map.rs:99-111  retain: scan, on removal re-check the same index.
\* The predicate writes content w into every value it sees when w # NoWrite
\* (idempotent, so the number of predicate calls is not observable) and
\* keeps exactly the classes in keep.
NoWrite == 99
RECURSIVE RetainLoop(_, _, _, _, _)
RetainLoop(ts, i, keep, w, gone) ==
  IF i > Len(ts) THEN [post |-> ts, gone |-> gone]
  ELSE LET seen == IF w = NoWrite THEN ts ELSE [ts EXCEPT ![i].v = w] IN
       IF seen[i].c \in keep
       THEN RetainLoop(seen, i + 1, keep, w, gone)
       ELSE RetainLoop(SwapRemove(seen, i), i, keep, w, gone \cup {seen[i]})

\* ------------------------------------------------------------ cursors --
\* Slice iterators (iterators.rs, keys.rs, values.rs, set/iterators.rs)
\* walk the live prefix front to back; IntoIter pops from the back
\* (iterators.rs:236-258); Drain captures pairs[0..len] and walks it front
\* to back (drain.rs).
BorrowOrder(ts)  == ts
ConsumeOrder(ts) == Rev(ts)
DrainOrder(ts)   == ts

\* exact lengths reported before each of the first k+1 polls
LensFrom(n, k) == [j \in 1..(k + 1) |-> n - (j - 1)]

\* ------------------------------------------------- get_disjoint_mut ----
\* map.rs:464-479 precheck: any two requested keys equal -> panic
HasDupKeys(ks) == \E i, j \in 1..Len(ks) : i < j /\ ks[i] = ks[j]
HasDupPresent(ts, ks) == \E i, j \in 1..Len(ks) : i < j /\ ks[i] = ks[j] /\ Find(ts, ks[i]) # 0

\* position(|k| k == p.0): first request equal to the slot's key
FirstReq(ks, c) ==
  IF \E j \in 1..Len(ks) : ks[j] = c
  THEN CHOOSE j \in 1..Len(ks) : ks[j] = c /\ \A h \in 1..(j - 1) : ks[h] # c
  ELSE 0

\* map.rs:530-566: one pass over the live slots pushing (pair_i, ks_i) on a
\* stack, sort by pair_i, split from the back.  The result array position
\* ks_i receives slot pair_i.  (The stack has J entries; with pairwise
\* different requests at most J slots match, so it cannot overflow.)
RECURSIVE DisjointStack(_, _, _, _)
DisjointStack(ts, ks, i, stack) ==
  IF i > Len(ts) THEN stack
  ELSE LET j == FirstReq(ks, ts[i].c) IN
       IF j = 0 THEN DisjointStack(ts, ks, i + 1, stack)
       ELSE DisjointStack(ts, ks, i + 1, Append(stack, <<i, j>>))

DisjointUnchecked(ts, ks) ==      \* -> [j |-> slot index or 0]
  IF Len(ks) = 0 THEN <<>>
  ELSE IF Len(ks) = 1 THEN <<Find(ts, ks[1])>>
  ELSE LET st == DisjointStack(ts, ks, 1, <<>>) IN
       [j \in 1..Len(ks) |->
          IF \E n \in 1..Len(st) : st[n][2] = j
          THEN LET n == CHOOSE n \in 1..Len(st) : st[n][2] = j /\ \A m \in (n+1)..Len(st) : st[m][2] # j
               IN st[n][1]     \* later writes to ret[ks_i] win; cannot happen for distinct keys
          ELSE 0]

\* ---------------------------------------------------------- equality ---
\* eq.rs:26-28: equal len and every (k,v) of self is found in other with equal value
EqMaps(a, b) ==
  /\ Len(a) = Len(b)
  /\ \A i \in 1..Len(a) : LET j == Find(b, a[i].c) IN j # 0 /\ b[j].v = a[i].v

\* ------------------------------------------------------- set algebra ---
Contains(ts, c) == Find(ts, c) # 0
RECURSIVE SeqFilterRec(_, _, _)
SeqFilterRec(s, keepIdx, i) ==
  IF i > Len(s) THEN <<>>
  ELSE IF i \in keepIdx THEN <<s[i]>> \o SeqFilterRec(s, keepIdx, i + 1)
  ELSE SeqFilterRec(s, keepIdx, i + 1)
Filter(s, keepIdx) == SeqFilterRec(s, keepIdx, 1)

\* set/difference.rs: self.iter().filter(|x| !other.contains(x))
DiffSeq(a, b)  == Filter(a, {i \in 1..Len(a) : ~Contains(b, a[i].c)})
\* set/intersection.rs: self.iter().filter(|x| other.contains(x))
InterSeq(a, b) == Filter(a, {i \in 1..Len(a) : Contains(b, a[i].c)})
\* set/union.rs: other.iter().chain(self.difference(other))
UnionSeq(a, b) == b \o DiffSeq(a, b)
\* set/symmetric_difference.rs: self.difference(other).chain(other.difference(self))
SymDiffSeq(a, b) == DiffSeq(a, b) \o DiffSeq(b, a)

\* set/methods.rs:120-141
IsDisjoint(a, b) ==
  IF Len(a) <= Len(b) THEN \A i \in 1..Len(a) : ~Contains(b, a[i].c)
  ELSE \A i \in 1..Len(b) : ~Contains(a, b[i].c)
IsSubset(a, b) ==
  IF Len(a) <= Len(b) THEN \A i \in 1..Len(a) : Contains(b, a[i].c) ELSE FALSE
IsSuperset(a, b) == IsSubset(b, a)

Min(x, y) == IF x <= y THEN x ELSE y
Monus(x, y) == IF x > y THEN x - y ELSE 0

\* size_hint of the lazy adaptors when the left iterator has `ra` items left
\* (rb items left in the second half of a chain); otherLen = len of the other set
DiffHint(ra, otherLen)  == <<Monus(ra, otherLen), ra>>
InterHint(ra, otherLen) == <<0, Min(ra, otherLen)>>
\* Chain::size_hint adds the halves
ChainHint(h1, h2) == <<h1[1] + h2[1], h1[2] + h2[2]>>
=============================================================================
