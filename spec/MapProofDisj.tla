---------------------------- MODULE MapProofDisj ----------------------------
(***************************************************************************)
(* TLAPS, unbounded sizes: the one-pass stack algorithm of                  *)
(* get_disjoint_unchecked_mut (map.rs; get_disjoint_mut delegates to it     *)
(* after checking that the requested keys are pairwise different) - C13,    *)
(* C18.                                                                     *)
(*     for pair_i in 0..len {                                               *)
(*         if let Some(ks_i) = ks.iter().position(|k| k == key(pair_i)) {   *)
(*             stack[stack_top] = Some((pair_i, ks_i)); stack_top += 1 } }  *)
(*     sort stack by pair_i; split the slot slice back to front at every    *)
(*     recorded pair_i and hand &mut value(pair_i) to position ks_i         *)
(* S = the keys in the slots (pairwise different: the representation        *)
(* invariant), Q = the requested keys (pairwise different: the contract of  *)
(* the unchecked variant, asserted by the checked one), of ANY lengths.     *)
(* DInv is the loop invariant.  Consequences, for every size:               *)
(*   NoOverflow  the J-entry stack never overflows (its bounds check cannot *)
(*               fire inside the contract)                                  *)
(*   Sorted      the stack is strictly increasing in pair_i by construction *)
(*               (the sort is a no-op), so every split_at_mut(pair_i) is    *)
(*               inside the shrinking head and no two recorded slots        *)
(*               coincide: the references handed out never alias            *)
(*   Positions   no request position is served twice                        *)
(*   Agrees      at the end position p is served iff Q[p] is stored, and by *)
(*               the one slot that holds Q[p] - exactly what get_mut finds  *)
(***************************************************************************)
EXTENDS Integers, Sequences, FiniteSets, Functions, FiniteSetTheorems, TLAPS

CONSTANTS Keys, S, Q
NoRepeat(s) == \A x, y \in 1..Len(s) : s[x] = s[y] => x = y
ASSUME Assumptions ==
  /\ S \in Seq(Keys) /\ NoRepeat(S)
  /\ Q \in Seq(Keys) /\ NoRepeat(Q)

VARIABLES i, st

Hit == [pi : 1..Len(S), p : 1..Len(Q)]
Match(x) == \E p \in 1..Len(Q) : Q[p] = x

Init == i = 1 /\ st = <<>>
Step ==
  /\ i \in 1..Len(S)
  /\ i' = i + 1
  /\ IF Match(S[i])
     THEN \E p \in 1..Len(Q) : Q[p] = S[i] /\ st' = Append(st, [pi |-> i, p |-> p])
     ELSE st' = st

DInv ==
  /\ i \in 1..(Len(S) + 1)
  /\ st \in Seq(Hit)
  /\ \A x \in 1..Len(st) : st[x].pi < i /\ S[st[x].pi] = Q[st[x].p]
  /\ \A x, y \in 1..Len(st) : x < y => st[x].pi < st[y].pi
  /\ \A j \in 1..(i - 1) : Match(S[j]) => \E x \in 1..Len(st) : st[x].pi = j

THEOREM InitInv == Init => DInv
  <1> SUFFICES ASSUME Init PROVE DInv OBVIOUS
  <1>0. S \in Seq(Keys) BY Assumptions
  <1>1. i = 1 /\ st = <<>> BY DEF Init
  <1>2. i \in 1..(Len(S) + 1) BY <1>0, <1>1
  <1>3. st \in Seq(Hit) /\ Len(st) = 0 BY <1>1
  <1>. QED BY <1>1, <1>2, <1>3 DEF DInv

THEOREM StepInv == ASSUME DInv, Step PROVE DInv'
  <1>0. S \in Seq(Keys) /\ Q \in Seq(Keys) /\ Len(S) \in Nat /\ Len(Q) \in Nat BY Assumptions
  <1>1. i \in 1..Len(S) /\ i' = i + 1 /\ st \in Seq(Hit) /\ Len(st) \in Nat BY DEF Step, DInv
  <1>a. \A x \in 1..Len(st) : st[x].pi < i /\ S[st[x].pi] = Q[st[x].p] BY DEF DInv
  <1>b. \A x, y \in 1..Len(st) : x < y => st[x].pi < st[y].pi BY DEF DInv
  <1>c. \A j \in 1..(i - 1) : Match(S[j]) => \E x \in 1..Len(st) : st[x].pi = j BY DEF DInv
  <1>t. \A x \in 1..Len(st) : st[x] \in Hit /\ st[x].pi \in Int BY <1>1 DEF Hit
  <1>2. i' \in 1..(Len(S) + 1) BY <1>1, <1>0
  <1>3. CASE ~Match(S[i])
    <2>1. st' = st BY <1>3 DEF Step
    <2>2. \A x \in 1..Len(st) : st[x].pi < i + 1 BY <1>a, <1>t, <1>1
    <2>3. \A j \in 1..i : Match(S[j]) => \E x \in 1..Len(st) : st[x].pi = j
      <3> SUFFICES ASSUME NEW j \in 1..i, Match(S[j]) PROVE \E x \in 1..Len(st) : st[x].pi = j OBVIOUS
      <3>1. j # i BY <1>3
      <3>2. j \in 1..(i - 1) BY <3>1, <1>1
      <3>. QED BY <3>2, <1>c
    <2>. QED BY <2>1, <2>2, <2>3, <1>1, <1>2, <1>a, <1>b DEF DInv
  <1>4. CASE Match(S[i])
    <2>1. PICK p \in 1..Len(Q) : Q[p] = S[i] /\ st' = Append(st, [pi |-> i, p |-> p]) BY <1>4 DEF Step
    <2> DEFINE h == [pi |-> i, p |-> p]
    <2>2. h \in Hit BY <1>1 DEF Hit
    <2>3. st' \in Seq(Hit) /\ Len(st') = Len(st) + 1 BY <2>1, <2>2, <1>1
    <2>4. \A x \in 1..Len(st) : st'[x] = st[x] BY <2>1, <1>1
    <2>5. st'[Len(st) + 1] = h BY <2>1, <1>1
    <2>6. \A x \in 1..(Len(st) + 1) : st'[x].pi < i + 1 /\ S[st'[x].pi] = Q[st'[x].p]
      <3> SUFFICES ASSUME NEW x \in 1..(Len(st) + 1) PROVE st'[x].pi < i + 1 /\ S[st'[x].pi] = Q[st'[x].p] OBVIOUS
      <3>1. CASE x = Len(st) + 1 BY <3>1, <2>5, <2>1, <1>1
      <3>2. CASE x \in 1..Len(st) BY <3>2, <2>4, <1>a, <1>t, <1>1
      <3>. QED BY <3>1, <3>2, <1>1
    <2>7. \A x, y \in 1..(Len(st) + 1) : x < y => st'[x].pi < st'[y].pi
      <3> SUFFICES ASSUME NEW x \in 1..(Len(st) + 1), NEW y \in 1..(Len(st) + 1), x < y PROVE st'[x].pi < st'[y].pi OBVIOUS
      <3>1. x \in 1..Len(st) BY <1>1
      <3>2. CASE y = Len(st) + 1
        <4>1. st'[x].pi = st[x].pi /\ st'[y].pi = i BY <3>1, <3>2, <2>4, <2>5
        <4>. QED BY <4>1, <3>1, <1>a
      <3>3. CASE y \in 1..Len(st) BY <3>1, <3>3, <2>4, <1>b
      <3>. QED BY <3>2, <3>3, <1>1
    <2>8. \A j \in 1..i : Match(S[j]) => \E x \in 1..(Len(st) + 1) : st'[x].pi = j
      <3> SUFFICES ASSUME NEW j \in 1..i, Match(S[j]) PROVE \E x \in 1..(Len(st) + 1) : st'[x].pi = j OBVIOUS
      <3>1. CASE j = i
        <4>1. Len(st) + 1 \in 1..(Len(st) + 1) BY <1>1
        <4>. QED BY <4>1, <3>1, <2>5
      <3>2. CASE j # i
        <4>1. j \in 1..(i - 1) BY <3>2, <1>1
        <4>2. PICK x \in 1..Len(st) : st[x].pi = j BY <4>1, <1>c
        <4>3. x \in 1..(Len(st) + 1) BY <1>1
        <4>. QED BY <4>2, <4>3, <2>4
      <3>. QED BY <3>1, <3>2
    <2>. QED BY <2>3, <2>6, <2>7, <2>8, <1>1, <1>2 DEF DInv
  <1>. QED BY <1>3, <1>4

THEOREM Safety == Init /\ [][Step]_<<i, st>> => []DInv
  <1>1. DInv /\ [Step]_<<i, st>> => DInv'
    <2> SUFFICES ASSUME DInv, [Step]_<<i, st>> PROVE DInv' OBVIOUS
    <2>1. CASE Step BY <2>1, StepInv
    <2>2. CASE UNCHANGED <<i, st>> BY <2>2 DEF DInv
    <2>. QED BY <2>1, <2>2
  <1>. QED BY InitInv, <1>1, PTL

\* ----------------------------------------------------------- consequences --
\* the recorded slots are pairwise different (strictly increasing): no two references alias, and
\* splitting back to front always cuts inside the part of the slice that is still whole
THEOREM Sorted == ASSUME DInv
                  PROVE  /\ \A x, y \in 1..Len(st) : x # y => st[x].pi # st[y].pi
                         /\ \A x \in 1..Len(st) : st[x].pi \in 1..Len(S)
                         /\ \A x \in 1..(Len(st) - 1) : st[x].pi < st[x + 1].pi
  <1>1. st \in Seq(Hit) /\ Len(st) \in Nat BY DEF DInv
  <1>b. \A x, y \in 1..Len(st) : x < y => st[x].pi < st[y].pi BY DEF DInv
  <1>t. \A x \in 1..Len(st) : st[x] \in Hit /\ st[x].pi \in 1..Len(S) BY <1>1 DEF Hit
  <1>2. \A x, y \in 1..Len(st) : x # y => st[x].pi # st[y].pi
    <2> SUFFICES ASSUME NEW x \in 1..Len(st), NEW y \in 1..Len(st), x # y PROVE st[x].pi # st[y].pi OBVIOUS
    <2>1. CASE x < y BY <2>1, <1>b, <1>t
    <2>2. CASE y < x BY <2>2, <1>b, <1>t
    <2>. QED BY <2>1, <2>2
  <1>3. \A x \in 1..(Len(st) - 1) : st[x].pi < st[x + 1].pi
    <2> SUFFICES ASSUME NEW x \in 1..(Len(st) - 1) PROVE st[x].pi < st[x + 1].pi OBVIOUS
    <2>1. x \in 1..Len(st) /\ x + 1 \in 1..Len(st) /\ x < x + 1 BY <1>1
    <2>. QED BY <2>1, <1>b
  <1>. QED BY <1>2, <1>3, <1>t

\* no request position is served by two stack entries
THEOREM Positions == ASSUME DInv PROVE \A x, y \in 1..Len(st) : st[x].p = st[y].p => x = y
  <1> SUFFICES ASSUME NEW x \in 1..Len(st), NEW y \in 1..Len(st), st[x].p = st[y].p PROVE x = y OBVIOUS
  <1>0. S \in Seq(Keys) /\ NoRepeat(S) BY Assumptions
  <1>1. st \in Seq(Hit) BY DEF DInv
  <1>2. st[x].pi \in 1..Len(S) /\ st[y].pi \in 1..Len(S) BY <1>1 DEF Hit
  <1>3. S[st[x].pi] = Q[st[x].p] /\ S[st[y].pi] = Q[st[y].p] BY DEF DInv
  <1>4. S[st[x].pi] = S[st[y].pi] BY <1>3
  <1>5. st[x].pi = st[y].pi BY <1>4, <1>2, <1>0 DEF NoRepeat
  <1>. QED BY <1>5, Sorted

\* hence the stack of J = Len(Q) entries never overflows
THEOREM NoOverflow == ASSUME DInv PROVE Len(st) <= Len(Q)
  <1>0. Len(Q) \in Nat BY Assumptions
  <1>1. st \in Seq(Hit) /\ Len(st) \in Nat BY DEF DInv
  <1> DEFINE f == [x \in 1..Len(st) |-> st[x].p]
  <1>2. f \in [1..Len(st) -> 1..Len(Q)] BY <1>1 DEF Hit
  <1>3. IsInjective(f) BY Positions DEF IsInjective
  <1>4. f \in Injection(1..Len(st), 1..Len(Q)) BY <1>2, <1>3 DEF Injection
  <1>5. IsFiniteSet(1..Len(Q)) /\ Cardinality(1..Len(Q)) = Len(Q) BY <1>0, FS_Interval
  <1>6. IsFiniteSet(1..Len(st)) /\ Cardinality(1..Len(st)) = Len(st) BY <1>1, FS_Interval
  <1>7. Cardinality(1..Len(st)) <= Cardinality(1..Len(Q)) BY <1>4, <1>5, FS_Injection
  <1>. QED BY <1>5, <1>6, <1>7

\* at the end: position p is served iff its key is stored, and by the slot that holds it
THEOREM Agrees == ASSUME DInv, i = Len(S) + 1, NEW p \in 1..Len(Q)
                  PROVE  /\ (\E x \in 1..Len(st) : st[x].p = p) <=> (\E j \in 1..Len(S) : S[j] = Q[p])
                         /\ \A x \in 1..Len(st) : st[x].p = p => S[st[x].pi] = Q[p]
  <1>0. S \in Seq(Keys) /\ Q \in Seq(Keys) /\ NoRepeat(Q) /\ Len(S) \in Nat BY Assumptions
  <1>1. st \in Seq(Hit) BY DEF DInv
  <1>a. \A x \in 1..Len(st) : S[st[x].pi] = Q[st[x].p] BY DEF DInv
  <1>c. \A j \in 1..Len(S) : Match(S[j]) => \E x \in 1..Len(st) : st[x].pi = j BY <1>0 DEF DInv
  <1>2. ASSUME NEW x \in 1..Len(st), st[x].p = p PROVE \E j \in 1..Len(S) : S[j] = Q[p]
    <2>1. st[x].pi \in 1..Len(S) BY <1>1 DEF Hit
    <2>. QED BY <2>1, <1>a, <1>2
  <1>3. ASSUME NEW j \in 1..Len(S), S[j] = Q[p] PROVE \E x \in 1..Len(st) : st[x].p = p
    <2>1. Match(S[j]) BY <1>3 DEF Match
    <2>2. PICK x \in 1..Len(st) : st[x].pi = j BY <2>1, <1>c
    <2>3. Q[st[x].p] = Q[p] BY <2>2, <1>a, <1>3
    <2>4. st[x].p \in 1..Len(Q) BY <1>1 DEF Hit
    <2>5. st[x].p = p BY <2>3, <2>4, <1>0 DEF NoRepeat
    <2>. QED BY <2>5
  <1>. QED BY <1>2, <1>3, <1>a
=============================================================================
