---------------------------- MODULE MapProofBulk ----------------------------
(***************************************************************************)
(* TLAPS, unbounded sizes: bulk construction (C16).  from.rs / set/from.rs  *)
(* / set/extend.rs build a container by a loop of `insert` over the source, *)
(* front to back.  Starting from an empty container, after the first m      *)
(* items have been consumed without overflow (BInv):                        *)
(*   - the stored keys are exactly the keys seen so far                     *)
(*   - the value stored for a key is the value of the LAST item with that   *)
(*     key ("the last value wins")                                          *)
(*   - the key OBJECT stored for a key is the one of the FIRST item with    *)
(*     that key ("the first key object is kept")                            *)
(*   - (MapProofId!Inv) keys stay pairwise different, so repeats consume no *)
(*     capacity                                                             *)
(* for item sequences of ANY length.  Builds on MapProofId.tla (InsertRef). *)
(***************************************************************************)
EXTENDS MapProofId

CONSTANT Items
ASSUME ItemsType == Items \in Seq(Pair)

VARIABLE m

BInit == slots = <<>> /\ m = 0
\* one iteration that does not overflow (an overflowing one panics and the half-built container is dropped)
BStep ==
  /\ m \in 0..(Len(Items) - 1)
  /\ Present(Items[m + 1].k) \/ Len(slots) < Cap
  /\ Insert(Items[m + 1].k, Items[m + 1].r, Items[m + 1].v, FALSE)
  /\ m' = m + 1

LastOf(j, n) == \A j2 \in (j + 1)..n : Items[j2].k # Items[j].k       \* item j is the last one with its key among 1..n
FirstOf(j) == \A j2 \in 1..(j - 1) : Items[j2].k # Items[j].k          \* item j is the first one with its key

BInv ==
  /\ m \in 0..Len(Items)
  /\ Inv
  /\ \A p \in Abs : \E j \in 1..m : Items[j].k = p.k
  /\ \A j \in 1..m : \E p \in Abs : p.k = Items[j].k
  /\ \A p \in Abs : \A j \in 1..m : Items[j].k = p.k /\ LastOf(j, m) => p.v = Items[j].v
  /\ \A p \in Abs : \A j \in 1..m : Items[j].k = p.k /\ FirstOf(j) => p.r = Items[j].r

THEOREM BInitInv == BInit => BInv
  <1> SUFFICES ASSUME BInit PROVE BInv OBVIOUS
  <1>0. Items \in Seq(Pair) BY ItemsType
  <1>1. slots = <<>> /\ m = 0 BY DEF BInit
  <1>2. Abs = {} BY <1>1 DEF Abs
  <1>3. Inv BY <1>1, CapNat DEF Inv, TypeOK, Unique
  <1>4. m \in 0..Len(Items) BY <1>0, <1>1
  <1>. QED BY <1>1, <1>2, <1>3, <1>4 DEF BInv

THEOREM BStepInv == ASSUME BInv, BStep PROVE BInv'
  <1>0. Items \in Seq(Pair) /\ Len(Items) \in Nat BY ItemsType
  <1>1. m \in 0..(Len(Items) - 1) /\ m' = m + 1 /\ Inv BY DEF BStep, BInv
  <1> DEFINE it == Items[m + 1]
             k == it.k
  <1>2. it \in Pair /\ k \in Keys /\ it.r \in Ids /\ it.v \in Vals BY <1>0, <1>1 DEF Pair
  <1>3. Insert(k, it.r, it.v, FALSE) /\ (Present(k) \/ Len(slots) < Cap) BY DEF BStep
  <1>4. Inv' BY <1>1, <1>2, <1>3, InsertInv
  <1>a. \A p \in Abs : \E j \in 1..m : Items[j].k = p.k BY DEF BInv
  <1>b. \A j \in 1..m : \E p \in Abs : p.k = Items[j].k BY DEF BInv
  <1>c. \A p \in Abs : \A j \in 1..m : Items[j].k = p.k /\ LastOf(j, m) => p.v = Items[j].v BY DEF BInv
  <1>d. \A p \in Abs : \A j \in 1..m : Items[j].k = p.k /\ FirstOf(j) => p.r = Items[j].r BY DEF BInv
  <1>5. m' \in 0..Len(Items) BY <1>1, <1>0
  \* the shape of the new abstraction, from InsertRef
  <1>6. \E new \in Pair :
           /\ new.k = k /\ new.v = it.v
           /\ Abs' = {p \in Abs : p.k # k} \cup {new}
           /\ (~Present(k) => new.r = it.r)
           /\ (Present(k) => \E old \in Abs : old.k = k /\ new.r = old.r)
    <2>1. CASE Present(k)
      <3>1. PICK i \in 1..Len(slots) :
                /\ slots[i].k = k
                /\ Abs' = {p \in Abs : p.k # k} \cup {[k |-> k, r |-> IF FALSE THEN it.r ELSE slots[i].r, v |-> it.v]}
        BY <2>1, <1>1, <1>2, <1>3, InsertRef
      <3>2. slots[i] \in Abs /\ slots[i] \in Pair BY <1>1 DEF Abs, Inv, TypeOK
      <3> DEFINE new == [k |-> k, r |-> slots[i].r, v |-> it.v]
      <3>3. new \in Pair BY <3>2, <1>2 DEF Pair
      <3>4. Abs' = {p \in Abs : p.k # k} \cup {new} BY <3>1
      <3>. QED BY <2>1, <3>1, <3>2, <3>3, <3>4
    <2>2. CASE ~Present(k)
      <3>1. Len(slots) < Cap BY <2>2, <1>3
      <3>2. Abs' = Abs \cup {[k |-> k, r |-> it.r, v |-> it.v]} BY <2>2, <3>1, <1>1, <1>2, <1>3, InsertRef
      <3> DEFINE new == [k |-> k, r |-> it.r, v |-> it.v]
      <3>3. new \in Pair BY <1>2 DEF Pair
      <3>4. \A p \in Abs : p.k # k BY <2>2 DEF Present, Abs
      <3>5. Abs' = {p \in Abs : p.k # k} \cup {new} BY <3>2, <3>4
      <3>. QED BY <2>2, <3>3, <3>5
    <2>. QED BY <2>1, <2>2
  <1>7. PICK new \in Pair :
           /\ new.k = k /\ new.v = it.v
           /\ Abs' = {p \in Abs : p.k # k} \cup {new}
           /\ (~Present(k) => new.r = it.r)
           /\ (Present(k) => \E old \in Abs : old.k = k /\ new.r = old.r)
    BY <1>6
  <1>n. m + 1 \in 1..(m + 1) /\ \A j \in 1..m : j \in 1..(m + 1) BY <1>1
  \* (3) only keys seen so far
  <1>8. \A p \in Abs' : \E j \in 1..(m + 1) : Items[j].k = p.k
    <2> SUFFICES ASSUME NEW p \in Abs' PROVE \E j \in 1..(m + 1) : Items[j].k = p.k OBVIOUS
    <2>1. CASE p = new BY <2>1, <1>7, <1>n
    <2>2. CASE p \in Abs
      <3>1. PICK j \in 1..m : Items[j].k = p.k BY <2>2, <1>a
      <3>. QED BY <3>1, <1>n
    <2>. QED BY <2>1, <2>2, <1>7
  \* (4) every key seen so far is stored
  <1>9. \A j \in 1..(m + 1) : \E p \in Abs' : p.k = Items[j].k
    <2> SUFFICES ASSUME NEW j \in 1..(m + 1) PROVE \E p \in Abs' : p.k = Items[j].k OBVIOUS
    <2>1. CASE Items[j].k = k BY <2>1, <1>7
    <2>2. CASE Items[j].k # k
      <3>1. j \in 1..m BY <2>2, <1>1
      <3>2. PICK p \in Abs : p.k = Items[j].k BY <3>1, <1>b
      <3>. QED BY <3>2, <2>2, <1>7
    <2>. QED BY <2>1, <2>2
  \* (5) the last value wins
  <1>10. \A p \in Abs' : \A j \in 1..(m + 1) : Items[j].k = p.k /\ LastOf(j, m + 1) => p.v = Items[j].v
    <2> SUFFICES ASSUME NEW p \in Abs', NEW j \in 1..(m + 1), Items[j].k = p.k, LastOf(j, m + 1) PROVE p.v = Items[j].v OBVIOUS
    <2>1. CASE p.k = k
      <3>1. p = new
        <4>1. CASE p \in {q \in Abs : q.k # k} BY <4>1, <2>1
        <4>. QED BY <4>1, <1>7
      <3>2. j = m + 1
        <4> SUFFICES ASSUME j # m + 1 PROVE FALSE OBVIOUS
        <4>1. m + 1 \in (j + 1)..(m + 1) BY <1>1
        <4>. QED BY <4>1, <2>1 DEF LastOf
      <3>. QED BY <3>1, <3>2, <1>7
    <2>2. CASE p.k # k
      <3>1. p \in Abs BY <2>2, <1>7
      <3>2. j # m + 1 BY <2>2
      <3>3. j \in 1..m BY <3>2, <1>1
      <3>4. LastOf(j, m) BY <1>1 DEF LastOf
      <3>. QED BY <3>1, <3>3, <3>4, <1>c
    <2>. QED BY <2>1, <2>2
  \* (6) the first key object is kept
  <1>11. \A p \in Abs' : \A j \in 1..(m + 1) : Items[j].k = p.k /\ FirstOf(j) => p.r = Items[j].r
    <2> SUFFICES ASSUME NEW p \in Abs', NEW j \in 1..(m + 1), Items[j].k = p.k, FirstOf(j) PROVE p.r = Items[j].r OBVIOUS
    <2>1. CASE p.k # k
      <3>1. p \in Abs BY <2>1, <1>7
      <3>2. j \in 1..m BY <2>1, <1>1
      <3>. QED BY <3>1, <3>2, <1>d
    <2>2. CASE p.k = k
      <3>1. p = new
        <4>1. CASE p \in {q \in Abs : q.k # k} BY <4>1, <2>2
        <4>. QED BY <4>1, <1>7
      <3>2. CASE Present(k)
        <4>1. PICK old \in Abs : old.k = k /\ new.r = old.r BY <3>2, <1>7
        <4>2. PICK j0 \in 1..m : Items[j0].k = k BY <4>1, <1>a
        <4>3. j # m + 1
          <5> SUFFICES ASSUME j = m + 1 PROVE FALSE OBVIOUS
          <5>1. j0 \in 1..(j - 1) BY <1>1
          <5>. QED BY <5>1, <4>2 DEF FirstOf
        <4>4. j \in 1..m BY <4>3, <1>1
        <4>5. old.r = Items[j].r BY <4>1, <4>4, <2>2, <1>d
        <4>. QED BY <3>1, <4>1, <4>5
      <3>3. CASE ~Present(k)
        <4>1. new.r = it.r BY <3>3, <1>7
        <4>2. j = m + 1
          <5> SUFFICES ASSUME j # m + 1 PROVE FALSE OBVIOUS
          <5>1. j \in 1..m BY <1>1
          <5>2. PICK q \in Abs : q.k = Items[j].k BY <5>1, <1>b
          <5>3. q.k = k BY <5>2, <2>2
          <5>. QED BY <5>3, <3>3 DEF Present, Abs
        <4>. QED BY <3>1, <4>1, <4>2
      <3>. QED BY <3>2, <3>3
    <2>. QED BY <2>1, <2>2
  <1>. QED BY <1>1, <1>4, <1>5, <1>8, <1>9, <1>10, <1>11 DEF BInv
=============================================================================
